//go:build verif

package sim

import (
	"time"

	corev1 "k8s.io/api/core/v1"
	metav1 "k8s.io/apimachinery/pkg/apis/meta/v1"
)

var podProto = &corev1.Pod{}

// Outcome of a Pod as decided by the kubelet model.
type Outcome string

const (
	OutSuccess Outcome = "success"
	OutFail    Outcome = "fail"
	OutOOM     Outcome = "oom"
)

// PodTruth is the kubelet's own record of what really happened to a Pod: the
// ground truth the C08/C10 oracles use.
type PodTruth struct {
	Key        string
	JobUID     string
	Created    time.Time
	Scheduled  bool
	Started    time.Time
	Finished   time.Time // container termination time (zero if it never terminated by itself)
	Outcome    Outcome   // set when Finished is set
	Gone       time.Time // the instant the object left the API (zero while it exists)
	GoneReason string
}

func (w *World) asKubelet() { w.API.BeginStep("kubelet") }

func (w *World) pod(key string) *corev1.Pod {
	o := w.API.Get(ResPods, key)
	if o == nil {
		return nil
	}
	return o.(*corev1.Pod)
}

func (w *World) writePodStatus(p *corev1.Pod) {
	p.ResourceVersion = ""
	_, _ = w.API.Update(ResPods, p, "status")
}

// KubeletSchedule binds a Pending, unscheduled Pod to a node.
func (w *World) KubeletSchedule(key string) bool {
	w.asKubelet()
	p := w.pod(key)
	if p == nil || p.Spec.NodeName != "" || p.DeletionTimestamp != nil {
		return false
	}
	p.Spec.NodeName = "node-1"
	p.ResourceVersion = ""
	if _, err := w.API.Update(ResPods, p, ""); err != nil {
		return false
	}
	p = w.pod(key)
	p.Status.Phase = corev1.PodPending
	p.Status.Conditions = []corev1.PodCondition{{Type: corev1.PodScheduled, Status: corev1.ConditionTrue}}
	w.writePodStatus(p)
	return true
}

func mainContainerName(p *corev1.Pod) string {
	if len(p.Spec.Containers) > 0 {
		return p.Spec.Containers[0].Name
	}
	return "main"
}

// KubeletRun reports the Pod's container as running.
func (w *World) KubeletRun(key string) bool {
	w.asKubelet()
	p := w.pod(key)
	// A Pod that is already terminating may still report its container as started
	// (and later as exited, possibly with code 0 after handling SIGTERM): the
	// deletion request and the container start race in a real kubelet.
	if p == nil || p.Spec.NodeName == "" || p.Status.Phase == corev1.PodRunning || isTerminal(p) {
		return false
	}
	now := metav1.NewTime(w.Clock.Now())
	p.Status.Phase = corev1.PodRunning
	p.Status.StartTime = &now
	p.Status.ContainerStatuses = []corev1.ContainerStatus{{Name: mainContainerName(p), State: corev1.ContainerState{Running: &corev1.ContainerStateRunning{StartedAt: now}}}}
	w.writePodStatus(p)
	return true
}

func isTerminal(p *corev1.Pod) bool {
	return p.Status.Phase == corev1.PodSucceeded || p.Status.Phase == corev1.PodFailed
}

// KubeletFinish reports termination of a running Pod's container with the given outcome.
func (w *World) KubeletFinish(key string, out Outcome) bool {
	w.asKubelet()
	p := w.pod(key)
	if p == nil || p.Status.Phase != corev1.PodRunning {
		return false
	}
	now := metav1.NewTime(w.Clock.Now())
	started := now
	if p.Status.StartTime != nil {
		started = *p.Status.StartTime
	}
	term := &corev1.ContainerStateTerminated{StartedAt: started, FinishedAt: now}
	switch out {
	case OutSuccess:
		p.Status.Phase = corev1.PodSucceeded
		term.Reason = "Completed"
	case OutOOM:
		p.Status.Phase = corev1.PodFailed
		term.ExitCode = 137
		term.Reason = "OOMKilled"
	default:
		p.Status.Phase = corev1.PodFailed
		term.ExitCode = 1
		term.Reason = "Error"
	}
	cs := corev1.ContainerStatus{Name: mainContainerName(p), State: corev1.ContainerState{Terminated: term}}
	if len(p.Status.ContainerStatuses) > 0 { // an earlier incarnation of the container (restart in place) stays on record
		cs.LastTerminationState = p.Status.ContainerStatuses[0].LastTerminationState
		cs.RestartCount = p.Status.ContainerStatuses[0].RestartCount
	}
	p.Status.ContainerStatuses = []corev1.ContainerStatus{cs}
	w.writePodStatus(p)
	return true
}

// KubeletFlap makes a running Pod's container statuses disappear (the
// documented kubelet glitch furiko guards against) ...
func (w *World) KubeletFlap(key string) bool {
	w.asKubelet()
	p := w.pod(key)
	if p == nil || p.Status.Phase != corev1.PodRunning || len(p.Status.ContainerStatuses) == 0 {
		return false
	}
	p.Status.ContainerStatuses = nil
	w.writePodStatus(p)
	return true
}

// KubeletFlapPending: a Pod that was running reports phase Pending without
// container statuses for a while (e.g. its node rebooted and the containers are
// being re-created); the Pod has begun running all the same.
func (w *World) KubeletFlapPending(key string) bool {
	w.asKubelet()
	p := w.pod(key)
	if p == nil || p.Status.Phase != corev1.PodRunning || len(p.Status.ContainerStatuses) == 0 || p.DeletionTimestamp != nil {
		return false
	}
	p.Status.Phase = corev1.PodPending
	p.Status.ContainerStatuses = nil
	w.writePodStatus(p)
	return true
}

// ... and KubeletUnflap brings them back with the original start time.
func (w *World) KubeletUnflap(key string) bool {
	w.asKubelet()
	p := w.pod(key)
	flappedPending := p != nil && p.Status.Phase == corev1.PodPending && p.Status.StartTime != nil
	if p == nil || (p.Status.Phase != corev1.PodRunning && !flappedPending) || len(p.Status.ContainerStatuses) != 0 || p.Status.StartTime == nil {
		return false
	}
	p.Status.Phase = corev1.PodRunning
	p.Status.ContainerStatuses = []corev1.ContainerStatus{{Name: mainContainerName(p), State: corev1.ContainerState{Running: &corev1.ContainerStateRunning{StartedAt: *p.Status.StartTime}}}}
	w.writePodStatus(p)
	return true
}

// KubeletRestartContainer: the container of a running Pod (restartPolicy
// OnFailure) fails and is restarted in place: the Pod stays Running, the
// container status carries the previous termination in lastState.
func (w *World) KubeletRestartContainer(key string) bool { return w.kubeletRestartContainer(key, false) }

// KubeletRestartContainerOOM: as KubeletRestartContainer, the previous
// incarnation having been OOM-killed.
func (w *World) KubeletRestartContainerOOM(key string) bool { return w.kubeletRestartContainer(key, true) }

func (w *World) kubeletRestartContainer(key string, oom bool) bool {
	w.asKubelet()
	p := w.pod(key)
	if p == nil || p.Status.Phase != corev1.PodRunning || len(p.Status.ContainerStatuses) == 0 || p.Spec.RestartPolicy != corev1.RestartPolicyOnFailure {
		return false
	}
	now := metav1.NewTime(w.Clock.Now())
	cs := &p.Status.ContainerStatuses[0]
	started := now
	if cs.State.Running != nil {
		started = cs.State.Running.StartedAt
	}
	last := &corev1.ContainerStateTerminated{ExitCode: 1, Reason: "Error", StartedAt: started, FinishedAt: now}
	if oom {
		last.ExitCode, last.Reason = 137, "OOMKilled"
	}
	cs.LastTerminationState = corev1.ContainerState{Terminated: last}
	cs.State = corev1.ContainerState{Running: &corev1.ContainerStateRunning{StartedAt: now}}
	cs.RestartCount++
	w.writePodStatus(p)
	return true
}

// KubeletTerminate confirms the termination of a Pod that is being deleted:
// the object leaves the API.
func (w *World) KubeletTerminate(key string) bool {
	w.asKubelet()
	p := w.pod(key)
	if p == nil || p.DeletionTimestamp == nil {
		return false
	}
	return w.API.RemovePod(p.Namespace, p.Name)
}

// Truths derives the ground truth of every Pod that ever existed from the ledger.
func (w *World) Truths() map[string]*PodTruth {
	out := map[string]*PodTruth{}
	cur := map[string]*PodTruth{}
	for _, e := range w.API.Ledger {
		if e.Res != ResPods || !e.Applied {
			continue
		}
		switch {
		case e.Verb == "create":
			p := e.After.(*corev1.Pod)
			t := &PodTruth{Key: e.Key + "#" + string(p.UID), Created: e.Time}
			if ref := metav1.GetControllerOf(p); ref != nil {
				t.JobUID = string(ref.UID)
			}
			cur[e.Key] = t
			out[t.Key] = t
		case e.Removed:
			if t := cur[e.Key]; t != nil {
				t.Gone = e.Time
				t.GoneReason = e.Actor
				delete(cur, e.Key)
			}
		case e.After != nil:
			p := e.After.(*corev1.Pod)
			t := cur[e.Key]
			if t == nil {
				continue
			}
			if p.Spec.NodeName != "" {
				t.Scheduled = true
			}
			if p.Status.Phase == corev1.PodRunning && t.Started.IsZero() {
				t.Started = e.Time
			}
			if isTerminal(p) && t.Finished.IsZero() {
				t.Finished = e.Time
				t.Outcome = OutFail
				if p.Status.Phase == corev1.PodSucceeded {
					t.Outcome = OutSuccess
				}
				for _, cs := range p.Status.ContainerStatuses {
					if cs.State.Terminated != nil && cs.State.Terminated.Reason == "OOMKilled" {
						t.Outcome = OutOOM
					}
				}
			}
		}
	}
	return out
}
