package props

import (
	"context"
	"encoding/json"
	"fmt"
	"reflect"
	"sort"
	"testing"

	jsonpatch "github.com/evanphx/json-patch"
	admissionv1 "k8s.io/api/admission/v1"
	corev1 "k8s.io/api/core/v1"
	metav1 "k8s.io/apimachinery/pkg/apis/meta/v1"
	"k8s.io/apimachinery/pkg/runtime"
	fakeclock "k8s.io/utils/clock/testing"
	"k8s.io/utils/pointer"
	"pgregory.net/rapid"

	configv1alpha1 "github.com/furiko-io/furiko/apis/config/v1alpha1"
	executiongroup "github.com/furiko-io/furiko/apis/execution"
	execution "github.com/furiko-io/furiko/apis/execution/v1alpha1"
	"github.com/furiko-io/furiko/pkg/execution/mutation"
	"github.com/furiko-io/furiko/pkg/execution/webhooks/jobconfigmutatingwebhook"
	"github.com/furiko-io/furiko/pkg/execution/webhooks/jobmutatingwebhook"
	"github.com/furiko-io/furiko/pkg/runtime/controllercontext/mock"

	"verif/harness/pbt"
)

const deleteDependentsFinalizer = executiongroup.DeleteDependentsFinalizer
const labelJobConfigUID = "execution.furiko.io/job-config-uid"

type AdmCfg struct {
	TTL     *int64 `json:"ttl,omitempty"`
	Pending *int64 `json:"pending,omitempty"`
}

func (c AdmCfg) apply(ctx *mock.Context) (ttl, pending *int64) {
	ttl, pending = pointer.Int64(3600), pointer.Int64(900)
	cfg := &configv1alpha1.JobExecutionConfig{}
	if c.TTL != nil {
		cfg.DefaultTTLSecondsAfterFinished = c.TTL
		ttl = c.TTL
	}
	if c.Pending != nil {
		cfg.DefaultPendingTimeoutSeconds = c.Pending
		pending = c.Pending
	}
	ctx.MockConfigs().SetConfigs(map[configv1alpha1.ConfigName]runtime.Object{configv1alpha1.JobExecutionConfigName: cfg})
	return
}

func genAdmCfg(t *rapid.T) AdmCfg {
	return AdmCfg{TTL: optInt64(t, "cfgTTL", 0, 120, 7200), Pending: optInt64(t, "cfgPending", 0, 30, 1800)}
}

// ---------- raw request bodies "as a client would send them" ----------

func isZeroJSON(v interface{}) bool {
	switch x := v.(type) {
	case nil:
		return true
	case string:
		return x == ""
	case float64:
		return x == 0
	case bool:
		return !x
	case map[string]interface{}:
		return len(x) == 0
	case []interface{}:
		return len(x) == 0
	}
	return false
}

type lcg struct{ s uint64 }

func (l *lcg) next() uint64 {
	l.s = l.s*6364136223846793005 + 1442695040888963407
	return l.s >> 33
}

// zeroPaths lists the paths of all keys whose value is a JSON zero value.
func zeroPaths(v interface{}, prefix []string, out *[][]string) {
	switch x := v.(type) {
	case map[string]interface{}:
		keys := make([]string, 0, len(x))
		for k := range x {
			keys = append(keys, k)
		}
		sort.Strings(keys)
		for _, k := range keys {
			p := append(append([]string(nil), prefix...), k)
			if isZeroJSON(x[k]) {
				*out = append(*out, p)
			} else {
				zeroPaths(x[k], p, out)
			}
		}
	case []interface{}:
		for i := range x {
			zeroPaths(x[i], append(append([]string(nil), prefix...), fmt.Sprintf("#%d", i)), out)
		}
	}
}

func deletePath(v interface{}, path []string) (restore func()) {
	cur := v
	for i, k := range path {
		switch x := cur.(type) {
		case map[string]interface{}:
			if i == len(path)-1 {
				old, ok := x[k]
				delete(x, k)
				return func() {
					if ok {
						x[k] = old
					}
				}
			}
			cur = x[k]
		case []interface{}:
			var idx int
			fmt.Sscanf(k, "#%d", &idx)
			cur = x[idx]
		}
	}
	return func() {}
}

// rawOf renders obj "as a client would send it": the typed JSON with a
// pseudo-random subset (a pure function of seed) of zero-valued keys omitted.
// A key is omitted only if the body still decodes to the same typed object
// (so e.g. an explicit 0 in a pointer field is never dropped).
func rawOf(obj interface{}, seed int) ([]byte, int) {
	b, err := json.Marshal(obj)
	if err != nil {
		panic(err)
	}
	if seed == 0 {
		return b, 0
	}
	var m interface{}
	_ = json.Unmarshal(b, &m)
	var paths [][]string
	zeroPaths(m, nil, &paths)
	r := &lcg{s: uint64(seed)}
	dropped := 0
	for _, p := range paths {
		if r.next()%3 == 0 {
			continue
		}
		restore := deletePath(m, p)
		cand, _ := json.Marshal(m)
		fresh := reflect.New(reflect.TypeOf(obj).Elem()).Interface()
		if err := json.Unmarshal(cand, fresh); err != nil || !jsonEq(fresh, obj) {
			restore()
			continue
		}
		dropped++
	}
	out, _ := json.Marshal(m)
	return out, dropped
}

func applyPatch(raw, patch []byte) ([]byte, error) {
	if len(patch) == 0 {
		return raw, nil
	}
	p, err := jsonpatch.DecodePatch(patch)
	if err != nil {
		return nil, err
	}
	return p.Apply(raw)
}

// jsonDiff lists the paths at which two JSON-marshalled values differ.
func jsonDiff(a, b interface{}) []string {
	var out []string
	var walk func(p string, x, y interface{})
	walk = func(p string, x, y interface{}) {
		xm, xok := x.(map[string]interface{})
		ym, yok := y.(map[string]interface{})
		if xok && yok {
			keys := map[string]bool{}
			for k := range xm {
				keys[k] = true
			}
			for k := range ym {
				keys[k] = true
			}
			ks := make([]string, 0, len(keys))
			for k := range keys {
				ks = append(ks, k)
			}
			sort.Strings(ks)
			for _, k := range ks {
				walk(p+"/"+k, xm[k], ym[k])
			}
			return
		}
		if !reflect.DeepEqual(x, y) {
			xb, _ := json.Marshal(x)
			yb, _ := json.Marshal(y)
			out = append(out, fmt.Sprintf("%s: got %s want %s", p, xb, yb))
		}
	}
	walk("", normalizeJSON(a), normalizeJSON(b))
	return out
}

func jsonEq(a, b interface{}) bool {
	ab, _ := json.Marshal(a)
	bb, _ := json.Marshal(b)
	var am, bm interface{}
	_ = json.Unmarshal(ab, &am)
	_ = json.Unmarshal(bb, &bm)
	return reflect.DeepEqual(am, bm)
}

var gvkJob = metav1.GroupVersionKind{Group: "execution.furiko.io", Version: "v1alpha1", Kind: "Job"}
var gvkJobConfig = metav1.GroupVersionKind{Group: "execution.furiko.io", Version: "v1alpha1", Kind: "JobConfig"}

// ---------- Job admission ----------

type JobAdmCase struct {
	JC       *execution.JobConfig `json:"jc,omitempty"`
	Job      *execution.Job       `json:"job"`
	Cfg      AdmCfg               `json:"cfg"`
	DropSeed int                  `json:"dropSeed"`
	Update   string               `json:"update"` // "", "same", "kill", "labels", "dropFinalizer"
}

func installFakeClocks() {
	mutation.Clock = fakeclock.NewFakeClock(baseTime)
}

func TestC16_job(t *testing.T) {
	installFakeClocks()
	pbt.Check(t, pbt.Opts{ID: "C16", Name: "job", Checks: 4000, ThoroughMul: 15,
		Rule: "random Job (configName / own template / both / neither, every optional field present or absent) x JobConfig (options of all types, template metadata, concurrency) x config defaults, sent to the real mutating webhook as create, then re-sent as create and as update; raw body = typed JSON with a random subset of zero-valued keys removed; non-trivial = admitted with a non-empty patch; distinct = distinct case"},
		func(t *rapid.T) JobAdmCase {
			var jc *execution.JobConfig
			if rapid.IntRange(0, 4).Draw(t, "hasJC") != 0 {
				jc = genJobConfig(t, jcGenOpts{Name: "jc", ValidOpts: true, WithCron: 0})
			}
			return JobAdmCase{JC: jc, Job: genJobFor(t, jc, 1), Cfg: genAdmCfg(t), DropSeed: rapid.IntRange(0, 1000).Draw(t, "dropSeed"),
				Update: rapid.SampledFrom([]string{"same", "kill", "labels", "dropFinalizer"}).Draw(t, "update")}
		}, runJobAdmCase)
}

func handleJob(hook *jobmutatingwebhook.Webhook, op admissionv1.Operation, raw, oldRaw []byte) (*admissionv1.AdmissionResponse, error) {
	req := &admissionv1.AdmissionRequest{Kind: gvkJob, Operation: op, Object: runtime.RawExtension{Raw: raw}}
	if oldRaw != nil {
		req.OldObject = runtime.RawExtension{Raw: oldRaw}
	}
	return hook.Handle(context.Background(), req)
}

func runJobAdmCase(c JobAdmCase) pbt.Result {
	installFakeClocks()
	res := pbt.Result{}
	ctx := newMockCtx()
	cfgTTL, cfgPending := c.Cfg.apply(ctx)
	var jcSpec *execution.OptionSpec
	if c.JC != nil {
		jc := c.JC.DeepCopy()
		// the stored JobConfig has been through its own admission: defaulted options
		if jc.Spec.Option != nil {
			sp, ok := preparedSpec(jc.Spec.Option)
			if !ok {
				res.Labels = []string{"jc-spec-rejected"}
				return res
			}
			jc.Spec.Option = sp
		}
		jcSpec = jc.Spec.Option
		c.JC = jc
		if err := ctx.Informers().Furiko().Execution().V1alpha1().JobConfigs().Informer().GetIndexer().Add(jc); err != nil {
			panic(err)
		}
	}
	hook, err := jobmutatingwebhook.NewWebhook(ctx)
	if err != nil {
		panic(err)
	}
	raw, dropped := rawOf(c.Job, c.DropSeed)
	if dropped > 0 {
		res.Labels = append(res.Labels, "raw-omits-zero-fields")
	}
	resp, err := handleJob(hook, admissionv1.Create, raw, nil)
	if err != nil {
		res.Violation = pbt.V("C16", "job/handle-error", "Handle returned an error: %v", err)
		return res
	}

	// --- reference: must this Job be rejected? ---
	usesConfig := c.Job.Spec.ConfigName != ""
	var wantOpts map[string]string
	wantReject := false
	if usesConfig {
		if c.JC == nil || c.JC.Name != c.Job.Spec.ConfigName {
			wantReject = true
		} else {
			vals := map[string]interface{}{}
			if c.Job.Spec.OptionValues != "" {
				if err := yamlOrJSON(c.Job.Spec.OptionValues, &vals); err != nil {
					wantReject = true
				}
			}
			var ok bool
			wantOpts, ok = refEvaluate(jcSpec, vals)
			if !ok {
				wantReject = true
			}
		}
	}
	if wantReject {
		res.Labels = append(res.Labels, "rejected")
		if resp.Allowed {
			res.Violation = pbt.V("C16", "job/accepted-invalid", "Job that must be rejected (unknown configName or invalid option values) was admitted")
		}
		return res
	}
	if !resp.Allowed {
		res.Violation = pbt.V("C16", "job/rejected-valid", "valid Job rejected: %v", resp.Result)
		return res
	}
	res.Labels = append(res.Labels, "admitted")
	if usesConfig {
		res.Labels = append(res.Labels, "configName")
	}
	res.NonTrivial = len(resp.Patch) > 0

	// --- (1) patch faithfulness ---
	patched, err := applyPatch(raw, resp.Patch)
	if err != nil {
		res.Violation = pbt.V("C16", "job/patch-not-applicable", "the patch cannot be applied to the submitted object: %v\nraw: %s\npatch: %s", err, raw, resp.Patch)
		return res
	}
	got := &execution.Job{}
	if err := json.Unmarshal(patched, got); err != nil {
		res.Violation = pbt.V("C16", "job/patched-undecodable", "patched object does not decode: %v", err)
		return res
	}
	want := c.Job.DeepCopy()
	if r := mutation.NewJobPatcher(ctx).Patch(admissionv1.Create, nil, want); len(r.Errors) > 0 {
		res.Violation = pbt.V("C16", "job/patcher-disagrees", "webhook admitted but the patcher reports errors: %v", r.Errors)
		return res
	}
	if !jsonEq(got, want) {
		res.Violation = pbt.V("C16", "job/patch-unfaithful", "patch applied to the submitted object differs from the defaulted object at %v\nraw: %s\npatch: %s", jsonDiff(got, want), raw, resp.Patch)
		return res
	}

	// --- (3) reference expectations on the stored object ---
	if v := checkJobDefaults(c, got, cfgTTL, cfgPending, wantOpts); v != nil {
		res.Violation = v
		return res
	}

	// --- (2) idempotence: the same object again, as create and as update ---
	stored, _ := json.Marshal(got)
	resp2, err := handleJob(hook, admissionv1.Create, stored, nil)
	if err != nil || !resp2.Allowed {
		res.Violation = pbt.V("C16", "job/resubmit-rejected", "re-submitting the defaulted object failed: %v %v", err, resp2)
		return res
	}
	if len(resp2.Patch) > 0 {
		res.Violation = pbt.V("C16", "job/not-idempotent-create", "re-submitting the defaulted object yields a further change: %s\nobject: %s", resp2.Patch, stored)
		return res
	}
	resp3, err := handleJob(hook, admissionv1.Update, stored, stored)
	if err != nil || !resp3.Allowed {
		res.Violation = pbt.V("C16", "job/update-rejected", "update old=new failed: %v %v", err, resp3)
		return res
	}
	if len(resp3.Patch) > 0 {
		res.Violation = pbt.V("C16", "job/not-idempotent-update", "update with old=new yields a change: %s", resp3.Patch)
		return res
	}

	// --- update of the stored object: defaults yes, finalizer never re-added ---
	upd := got.DeepCopy()
	switch c.Update {
	case "kill":
		upd.Spec.KillTimestamp = &metav1.Time{Time: baseTime}
	case "labels":
		if upd.Labels == nil {
			upd.Labels = map[string]string{}
		}
		upd.Labels["added"] = "later"
	case "dropFinalizer":
		var fs []string
		for _, f := range upd.Finalizers {
			if f != deleteDependentsFinalizer {
				fs = append(fs, f)
			}
		}
		upd.Finalizers = fs
	}
	res.Labels = append(res.Labels, "update:"+c.Update)
	updRaw, _ := rawOf(upd, c.DropSeed+1)
	resp4, err := handleJob(hook, admissionv1.Update, updRaw, stored)
	if err != nil || !resp4.Allowed {
		res.Violation = pbt.V("C16", "job/update-rejected", "update (%s) failed: %v %v", c.Update, err, resp4)
		return res
	}
	patched4, err := applyPatch(updRaw, resp4.Patch)
	if err != nil {
		res.Violation = pbt.V("C16", "job/patch-not-applicable", "update patch cannot be applied: %v", err)
		return res
	}
	got4 := &execution.Job{}
	_ = json.Unmarshal(patched4, got4)
	if !jsonEq(got4, upd) {
		res.Violation = pbt.V("C16", "job/update-changed-defaulted-object", "update (%s) of an already defaulted object was altered by admission: %v", c.Update, jsonDiff(got4, upd))
		return res
	}
	return res
}

func yamlOrJSON(s string, out *map[string]interface{}) error {
	return yamlUnmarshal([]byte(s), out)
}

func hasString(l []string, s string) bool { return contains(l, s) }

func checkJobDefaults(c JobAdmCase, got *execution.Job, cfgTTL, cfgPending *int64, wantOpts map[string]string) *pbt.Violation {
	in := c.Job
	bad := func(sig, f string, a ...interface{}) *pbt.Violation { return pbt.V("C16", "job/"+sig, f, a...) }
	if !hasString(got.Finalizers, deleteDependentsFinalizer) {
		return bad("finalizer", "created Job lacks the delete-dependents finalizer: %v", got.Finalizers)
	}
	for _, f := range in.Finalizers {
		if !hasString(got.Finalizers, f) {
			return bad("finalizer-lost", "finalizer %q of the submitted Job was dropped", f)
		}
	}
	wantType := in.Spec.Type
	if wantType == "" {
		wantType = execution.JobTypeAdhoc
	}
	if got.Spec.Type != wantType {
		return bad("type", "type %q, want %q", got.Spec.Type, wantType)
	}
	wantTTL := in.Spec.TTLSecondsAfterFinished
	if wantTTL == nil {
		wantTTL = cfgTTL
	}
	if !reflect.DeepEqual(got.Spec.TTLSecondsAfterFinished, wantTTL) {
		return bad("ttl", "ttlSecondsAfterFinished %v, want %v", deref64(got.Spec.TTLSecondsAfterFinished), deref64(wantTTL))
	}
	// template
	var base *execution.JobTemplate
	usesConfig := in.Spec.ConfigName != ""
	switch {
	case usesConfig:
		base = c.JC.Spec.Template.Spec.DeepCopy()
	case in.Spec.Template != nil:
		base = in.Spec.Template.DeepCopy()
	default:
		base = &execution.JobTemplate{}
	}
	if base.MaxAttempts == nil {
		base.MaxAttempts = pointer.Int64(1)
	}
	if base.TaskPendingTimeoutSeconds == nil {
		base.TaskPendingTimeoutSeconds = cfgPending
	}
	if base.Parallelism != nil && base.Parallelism.CompletionStrategy == "" {
		base.Parallelism.CompletionStrategy = execution.AllSuccessful
	}
	if base.TaskTemplate.Pod != nil && base.TaskTemplate.Pod.Spec.RestartPolicy == "" {
		base.TaskTemplate.Pod.Spec.RestartPolicy = corev1.RestartPolicyNever
	}
	if !jsonEq(got.Spec.Template, base) {
		g, _ := json.Marshal(got.Spec.Template)
		w, _ := json.Marshal(base)
		return bad("template", "template after admission\n got: %s\nwant: %s", g, w)
	}
	if usesConfig {
		if got.Spec.ConfigName != "" {
			return bad("configName-kept", "configName %q not cleared", got.Spec.ConfigName)
		}
		if len(got.OwnerReferences) != 1 {
			return bad("owner", "owner references %v, want exactly the JobConfig", got.OwnerReferences)
		}
		o := got.OwnerReferences[0]
		if o.Kind != "JobConfig" || o.Name != c.JC.Name || o.UID != c.JC.UID || o.Controller == nil || !*o.Controller || o.APIVersion != "execution.furiko.io/v1alpha1" {
			return bad("owner", "owner reference %+v does not point at JobConfig %s/%s as controller", o, c.JC.Name, c.JC.UID)
		}
		if got.Labels[labelJobConfigUID] != string(c.JC.UID) {
			return bad("uid-label", "label %s=%q, want %q", labelJobConfigUID, got.Labels[labelJobConfigUID], c.JC.UID)
		}
		for k, v := range c.JC.Spec.Template.Labels {
			w := v
			if jv, ok := in.Labels[k]; ok {
				w = jv
			}
			if got.Labels[k] != w {
				return bad("labels", "label %s=%q, want %q (Job's own metadata takes precedence over the template's)", k, got.Labels[k], w)
			}
		}
		for k, v := range c.JC.Spec.Template.Annotations {
			w := v
			if jv, ok := in.Annotations[k]; ok {
				w = jv
			}
			if got.Annotations[k] != w {
				return bad("annotations", "annotation %s=%q, want %q", k, got.Annotations[k], w)
			}
		}
		wantPolicy := c.JC.Spec.Concurrency.Policy
		if in.Spec.StartPolicy != nil && in.Spec.StartPolicy.ConcurrencyPolicy != "" {
			wantPolicy = in.Spec.StartPolicy.ConcurrencyPolicy
		}
		if got.Spec.StartPolicy == nil || got.Spec.StartPolicy.ConcurrencyPolicy != wantPolicy {
			return bad("policy", "concurrency policy %+v, want %q (explicit value, else the JobConfig's)", got.Spec.StartPolicy, wantPolicy)
		}
		// substitutions: explicit > evaluated option value > JobConfig context
		wantSubs := map[string]string{"jobconfig.uid": string(c.JC.UID), "jobconfig.name": c.JC.Name, "jobconfig.namespace": c.JC.Namespace}
		for k, v := range wantOpts {
			wantSubs[k] = v
		}
		for k, v := range in.Spec.Substitutions {
			wantSubs[k] = v
		}
		if !reflect.DeepEqual(got.Spec.Substitutions, wantSubs) {
			return bad("substitutions", "substitutions %v, want %v", got.Spec.Substitutions, wantSubs)
		}
		if in.Spec.OptionValues != "" {
			var a, b map[string]interface{}
			if err := yamlOrJSON(in.Spec.OptionValues, &a); err == nil {
				if err := json.Unmarshal([]byte(got.Spec.OptionValues), &b); err != nil || !reflect.DeepEqual(normalizeJSON(a), normalizeJSON(b)) {
					return bad("optionValues", "stored optionValues %q do not carry the submitted values %q", got.Spec.OptionValues, in.Spec.OptionValues)
				}
			}
		}
	} else {
		if !reflect.DeepEqual(got.Spec.Substitutions, in.Spec.Substitutions) && !(len(got.Spec.Substitutions) == 0 && len(in.Spec.Substitutions) == 0) {
			return bad("substitutions", "substitutions of a Job without JobConfig changed: %v -> %v", in.Spec.Substitutions, got.Spec.Substitutions)
		}
		for k, v := range in.Labels {
			if got.Labels[k] != v {
				return bad("labels", "label %s changed", k)
			}
		}
	}
	if in.Spec.StartPolicy != nil {
		if got.Spec.StartPolicy == nil || !timeEq(got.Spec.StartPolicy.StartAfter, in.Spec.StartPolicy.StartAfter) {
			return bad("startAfter", "startAfter changed by admission")
		}
	}
	if !timeEq(got.Spec.KillTimestamp, in.Spec.KillTimestamp) {
		return bad("killTimestamp", "killTimestamp changed by admission")
	}
	if got.Name != in.Name || got.Namespace != in.Namespace {
		return bad("identity", "name/namespace changed")
	}
	return nil
}

func normalizeJSON(v interface{}) interface{} {
	b, _ := json.Marshal(v)
	var out interface{}
	_ = json.Unmarshal(b, &out)
	return out
}

func deref64(p *int64) string {
	if p == nil {
		return "nil"
	}
	return fmt.Sprint(*p)
}

// ---------- JobConfig admission ----------

type JCAdmCase struct {
	JC       *execution.JobConfig `json:"jc"`
	Cfg      AdmCfg               `json:"cfg"`
	DropSeed int                  `json:"dropSeed"`
	Edit     string               `json:"edit"` // none|expr|tz|disable|constraints|dropSchedule|addSchedule|template|lastUpdatedOnly
	// SubmitLU: what the update submits as schedule.lastUpdated, independently of
	// the edit: "" = the stored value, absent, past, future (the stored value may
	// itself be unset/past/future, so stored and submitted can lie on different
	// sides of "now").
	SubmitLU string `json:"submitLU,omitempty"`
}

func TestC16_jobconfig(t *testing.T) {
	installFakeClocks()
	pbt.Check(t, pbt.Opts{ID: "C16", Name: "jobconfig", Checks: 4000, ThoroughMul: 15,
		Rule: "random JobConfig (schedule present/absent, lastUpdated unset/past/now/future, options, template) created through the real mutating webhook, then updated with a schedule edit / non-schedule edit / no edit; non-trivial = a schedule exists before or after the edit; distinct = distinct case"},
		func(t *rapid.T) JCAdmCase {
			return JCAdmCase{JC: genJobConfig(t, jcGenOpts{ValidOpts: rapid.IntRange(0, 5).Draw(t, "validopts") != 0, WithCron: 1}), Cfg: genAdmCfg(t),
				DropSeed: rapid.IntRange(0, 1000).Draw(t, "dropSeed"),
				Edit:     rapid.SampledFrom([]string{"none", "expr", "tz", "disable", "constraints", "dropSchedule", "addSchedule", "template", "lastUpdatedOnly"}).Draw(t, "edit"),
				SubmitLU: rapid.SampledFrom([]string{"", "", "absent", "past", "future"}).Draw(t, "submitLU")}
		}, runJCAdmCase)
}

func handleJC(hook *jobconfigmutatingwebhook.Webhook, op admissionv1.Operation, raw, oldRaw []byte) (*admissionv1.AdmissionResponse, error) {
	req := &admissionv1.AdmissionRequest{Kind: gvkJobConfig, Operation: op, Object: runtime.RawExtension{Raw: raw}}
	if oldRaw != nil {
		req.OldObject = runtime.RawExtension{Raw: oldRaw}
	}
	return hook.Handle(context.Background(), req)
}

func expectLastUpdated(submitted *metav1.Time, stamp bool) *metav1.Time {
	if !stamp {
		return submitted
	}
	if submitted != nil && !submitted.IsZero() && submitted.Time.After(baseTime) {
		return submitted // an explicit later value is kept
	}
	mt := metav1.NewTime(baseTime)
	return &mt
}

func scheduleSansLastUpdated(s *execution.ScheduleSpec) interface{} {
	if s == nil {
		return nil
	}
	c := s.DeepCopy()
	c.LastUpdated = nil
	return normalizeJSON(c)
}

func runJCAdmCase(c JCAdmCase) pbt.Result {
	installFakeClocks()
	res := pbt.Result{Labels: []string{"edit:" + c.Edit}}
	ctx := newMockCtx()
	_, cfgPending := c.Cfg.apply(ctx)
	hook, err := jobconfigmutatingwebhook.NewWebhook(ctx)
	if err != nil {
		panic(err)
	}
	raw, _ := rawOf(c.JC, c.DropSeed)
	resp, err := handleJC(hook, admissionv1.Create, raw, nil)
	if err != nil {
		res.Violation = pbt.V("C16", "jobconfig/handle-error", "Handle: %v", err)
		return res
	}
	if !resp.Allowed {
		res.Violation = pbt.V("C16", "jobconfig/rejected", "mutating webhook rejected a JobConfig: %v", resp.Result)
		return res
	}
	patched, err := applyPatch(raw, resp.Patch)
	if err != nil {
		res.Violation = pbt.V("C16", "jobconfig/patch-not-applicable", "patch cannot be applied: %v\nraw: %s\npatch: %s", err, raw, resp.Patch)
		return res
	}
	got := &execution.JobConfig{}
	if err := json.Unmarshal(patched, got); err != nil {
		res.Violation = pbt.V("C16", "jobconfig/patched-undecodable", "%v", err)
		return res
	}
	want := c.JC.DeepCopy()
	mutation.NewJobConfigPatcher(ctx).Patch(admissionv1.Create, nil, want)
	if !jsonEq(got, want) {
		res.Violation = pbt.V("C16", "jobconfig/patch-unfaithful", "patched object differs from the defaulted object at %v\nraw: %s\npatch: %s", jsonDiff(got, want), raw, resp.Patch)
		return res
	}
	// reference expectations for create
	if v := checkJCDefaults(c.JC, got, cfgPending, c.JC.Spec.Schedule != nil); v != nil {
		res.Violation = v
		return res
	}
	if c.JC.Spec.Schedule != nil {
		res.NonTrivial = true
		res.Labels = append(res.Labels, "created-with-schedule")
	}
	stored, _ := json.Marshal(got)
	// idempotence
	if r, err := handleJC(hook, admissionv1.Update, stored, stored); err != nil || !r.Allowed || len(r.Patch) > 0 {
		res.Violation = pbt.V("C16", "jobconfig/not-idempotent-update", "update old=new: err=%v resp=%+v", err, r)
		return res
	}
	if r, err := handleJC(hook, admissionv1.Create, stored, nil); err != nil || !r.Allowed || len(r.Patch) > 0 {
		res.Violation = pbt.V("C16", "jobconfig/not-idempotent-create", "re-creating the defaulted object at the same instant: err=%v patch=%s", err, r.Patch)
		return res
	}

	// --- update ---
	mutation.Clock = fakeclock.NewFakeClock(baseTime.Add(90 * 1e9)) // the edit happens 90 s later
	later := metav1.NewTime(baseTime.Add(90 * 1e9))
	upd := got.DeepCopy()
	switch c.Edit {
	case "expr":
		if upd.Spec.Schedule != nil && upd.Spec.Schedule.Cron != nil {
			upd.Spec.Schedule.Cron = &execution.CronSchedule{Expression: "7 7 * * *", Timezone: upd.Spec.Schedule.Cron.Timezone}
		}
	case "tz":
		if upd.Spec.Schedule != nil && upd.Spec.Schedule.Cron != nil {
			upd.Spec.Schedule.Cron.Timezone = "Asia/Tokyo"
		}
	case "disable":
		if upd.Spec.Schedule != nil {
			upd.Spec.Schedule.Disabled = !upd.Spec.Schedule.Disabled
		}
	case "constraints":
		if upd.Spec.Schedule != nil {
			nb := metav1.NewTime(baseTime.Add(12345 * 1e9))
			upd.Spec.Schedule.Constraints = &execution.ScheduleContraints{NotBefore: &nb}
		}
	case "dropSchedule":
		upd.Spec.Schedule = nil
	case "addSchedule":
		if upd.Spec.Schedule == nil {
			upd.Spec.Schedule = &execution.ScheduleSpec{Cron: &execution.CronSchedule{Expression: "*/5 * * * *"}}
		}
	case "template":
		upd.Spec.Template.Spec.MaxAttempts = pointer.Int64(4)
	case "lastUpdatedOnly":
		if upd.Spec.Schedule != nil {
			lu := metav1.NewTime(baseTime.Add(-3600 * 1e9))
			upd.Spec.Schedule.LastUpdated = &lu
		}
	}
	if upd.Spec.Schedule != nil && c.Edit != "lastUpdatedOnly" {
		switch c.SubmitLU {
		case "absent":
			upd.Spec.Schedule.LastUpdated = nil
		case "past":
			lu := metav1.NewTime(baseTime.Add(-7200 * 1e9))
			upd.Spec.Schedule.LastUpdated = &lu
		case "future":
			lu := metav1.NewTime(baseTime.Add(86400 * 1e9))
			upd.Spec.Schedule.LastUpdated = &lu
		}
		if c.SubmitLU != "" {
			res.Labels = append(res.Labels, "submitted-lastUpdated:"+c.SubmitLU)
		}
	}
	updRaw, _ := rawOf(upd, c.DropSeed+1)
	r, err := handleJC(hook, admissionv1.Update, updRaw, stored)
	if err != nil || !r.Allowed {
		res.Violation = pbt.V("C16", "jobconfig/update-rejected", "update (%s): %v %+v", c.Edit, err, r)
		return res
	}
	p2, err := applyPatch(updRaw, r.Patch)
	if err != nil {
		res.Violation = pbt.V("C16", "jobconfig/patch-not-applicable", "update patch cannot be applied: %v", err)
		return res
	}
	got2 := &execution.JobConfig{}
	_ = json.Unmarshal(p2, got2)
	changed := !reflect.DeepEqual(scheduleSansLastUpdated(got.Spec.Schedule), scheduleSansLastUpdated(upd.Spec.Schedule))
	if upd.Spec.Schedule != nil {
		res.NonTrivial = true
		if changed {
			res.Labels = append(res.Labels, "schedule-changed")
		} else {
			res.Labels = append(res.Labels, "schedule-unchanged")
		}
		wantLU := upd.Spec.Schedule.LastUpdated
		if changed {
			wantLU = &later
			if s := upd.Spec.Schedule.LastUpdated; s != nil && s.Time.After(later.Time) {
				wantLU = s
			}
		}
		gotLU := got2.Spec.Schedule.LastUpdated
		if (gotLU == nil) != (wantLU == nil) || (gotLU != nil && !gotLU.Time.Equal(wantLU.Time)) {
			res.Violation = pbt.V("C16", "jobconfig/lastUpdated-update", "edit %s (schedule changed=%v): lastUpdated %v, want %v", c.Edit, changed, gotLU, wantLU)
			return res
		}
	} else if got2.Spec.Schedule != nil {
		res.Violation = pbt.V("C16", "jobconfig/schedule-resurrected", "schedule removed by the update came back")
		return res
	}
	// everything else of the update is preserved
	a, b := got2.DeepCopy(), upd.DeepCopy()
	if a.Spec.Schedule != nil {
		a.Spec.Schedule.LastUpdated = nil
	}
	if b.Spec.Schedule != nil {
		b.Spec.Schedule.LastUpdated = nil
	}
	if !jsonEq(a, b) {
		res.Violation = pbt.V("C16", "jobconfig/update-altered", "update (%s) of a defaulted JobConfig altered other fields: %v", c.Edit, jsonDiff(a, b))
	}
	return res
}

func checkJCDefaults(in, got *execution.JobConfig, cfgPending *int64, hasSchedule bool) *pbt.Violation {
	bad := func(sig, f string, a ...interface{}) *pbt.Violation {
		return pbt.V("C16", "jobconfig/"+sig, f, a...)
	}
	if hasSchedule {
		want := expectLastUpdated(in.Spec.Schedule.LastUpdated, true)
		g := got.Spec.Schedule.LastUpdated
		if g == nil || !g.Time.Equal(want.Time) {
			return bad("lastUpdated-create", "created with a schedule: lastUpdated %v, want %v", g, want)
		}
	} else if got.Spec.Schedule != nil {
		return bad("schedule-invented", "a schedule appeared on a JobConfig created without one")
	}
	base := in.Spec.Template.Spec.DeepCopy()
	if base.MaxAttempts == nil {
		base.MaxAttempts = pointer.Int64(1)
	}
	if base.TaskPendingTimeoutSeconds == nil {
		base.TaskPendingTimeoutSeconds = cfgPending
	}
	if base.Parallelism != nil && base.Parallelism.CompletionStrategy == "" {
		base.Parallelism.CompletionStrategy = execution.AllSuccessful
	}
	if !jsonEq(got.Spec.Template.Spec, base) {
		g, _ := json.Marshal(got.Spec.Template.Spec)
		w, _ := json.Marshal(base)
		return bad("template", "template after admission\n got: %s\nwant: %s", g, w)
	}
	if in.Spec.Option != nil {
		for i, o := range in.Spec.Option.Options {
			g := got.Spec.Option.Options[i]
			if o.Type == execution.OptionTypeBool {
				wf := execution.BoolOptionFormatTrueFalse
				if o.Bool != nil && o.Bool.Format != "" {
					wf = o.Bool.Format
				}
				if g.Bool == nil || g.Bool.Format != wf {
					return bad("bool-format", "bool option %s format %+v, want %s", o.Name, g.Bool, wf)
				}
			}
		}
	}
	if !jsonEq(got.Spec.Concurrency, in.Spec.Concurrency) || got.Name != in.Name {
		return bad("other-fields", "concurrency or name changed by admission")
	}
	return nil
}

func timeEq(a, b *metav1.Time) bool {
	if a == nil || b == nil {
		return a == nil && b == nil
	}
	return a.Time.Equal(b.Time)
}
