package props

import (
	"fmt"
	"time"

	"github.com/furiko-io/cronexpr"
	metav1 "k8s.io/apimachinery/pkg/apis/meta/v1"
	"k8s.io/utils/pointer"

	configv1alpha1 "github.com/furiko-io/furiko/apis/config/v1alpha1"
	execution "github.com/furiko-io/furiko/apis/execution/v1alpha1"
)

// ---------- independent reference for cron scheduling (C01, C03, C04) ----------

// CronSimCfg is the dynamic cron configuration of a case.
type CronSimCfg struct {
	CronCfg
	MaxMissed   *int64 `json:"maxMissed,omitempty"`
	MaxDowntime int64  `json:"maxDowntime,omitempty"`
}

func (c CronSimCfg) typedFull() *configv1alpha1.CronExecutionConfig {
	cfg := c.CronCfg.typed()
	cfg.MaxMissedSchedules = c.MaxMissed
	cfg.MaxDowntimeThresholdSeconds = c.MaxDowntime
	return cfg
}

func (c CronSimCfg) maxMissed() int {
	if c.MaxMissed != nil {
		return int(*c.MaxMissed)
	}
	return 5
}

func (c CronSimCfg) downtime() time.Duration {
	if c.MaxDowntime > 0 {
		return time.Duration(c.MaxDowntime) * time.Second
	}
	return 300 * time.Second
}

// refZones maps every zone string the generators draw to a location built
// without furiko's tzutils.
var refZones = map[string]*time.Location{}

func init() {
	fixed := func(name string, secs int) *time.Location { return time.FixedZone(name, secs) }
	for _, n := range []string{"UTC", "Asia/Singapore", "America/New_York", "Europe/London", "Australia/Lord_Howe", "Asia/Kolkata", "America/Sao_Paulo", "Pacific/Apia", "Asia/Kathmandu", "Asia/Tokyo"} {
		l, err := time.LoadLocation(n)
		if err != nil {
			panic(err)
		}
		refZones[n] = l
	}
	refZones["GMT"] = time.UTC
	refZones["Local"] = time.UTC
	refZones["UTC+8"] = fixed("a", 8*3600)
	refZones["UTC-7"] = fixed("b", -7*3600)
	refZones["GMT+8"] = fixed("c", 8*3600)
	refZones["GMT-7"] = fixed("d", -7*3600)
	refZones["UTC+08:00"] = fixed("e", 8*3600)
	refZones["UTC-0330"] = fixed("f", -(3*3600 + 1800))
	refZones["UTC+05:30"] = fixed("g", 5*3600+1800)
	refZones["UTC+5:30"] = fixed("h", 5*3600+1800)
	refZones["UTC+14"] = fixed("i", 14*3600)
	refZones["UTC-12"] = fixed("j", -12*3600)
}

// refZone returns the effective zone: the JobConfig's, else the configured
// default, else UTC.
func refZone(tz string, cfg CronSimCfg) (*time.Location, bool) {
	if tz == "" {
		tz = cfg.DefaultTZ
	}
	if tz == "" {
		return time.UTC, true
	}
	l, ok := refZones[tz]
	return l, ok
}

// refParse parses with the cron library directly; the option set is derived
// from the documented meaning of the configuration, not from furiko's parser.
func refParse(expr string, cfg CronSimCfg, hashID string) (*cronexpr.Expression, error) {
	format := cronexpr.CronFormatStandard
	if cfg.Format == "quartz" {
		format = cronexpr.CronFormatQuartz
	}
	var opts []cronexpr.ParseOption
	if pointer.BoolDeref(cfg.HashNames, true) {
		opts = append(opts, cronexpr.WithHash(hashID))
		if pointer.BoolDeref(cfg.HashSeconds, false) {
			opts = append(opts, cronexpr.WithHashEmptySeconds())
		}
		if pointer.BoolDeref(cfg.HashFields, true) {
			opts = append(opts, cronexpr.WithHashFields())
		}
	}
	return cronexpr.ParseForFormat(format, expr, opts...)
}

// refStream is the stream of matches of one JobConfig version.
type refStream struct {
	exprs     []*cronexpr.Expression
	zone      *time.Location
	notBefore time.Time
	notAfter  time.Time
}

// newRefStream returns nil if the version is not schedulable (no schedule,
// disabled, no cron).
func newRefStream(jc *execution.JobConfig, cfg CronSimCfg) (*refStream, error) {
	s := jc.Spec.Schedule
	if s == nil || s.Disabled || s.Cron == nil {
		return nil, nil
	}
	zone, ok := refZone(s.Cron.Timezone, cfg)
	if !ok {
		return nil, fmt.Errorf("reference has no zone for %q", s.Cron.Timezone)
	}
	rs := &refStream{zone: zone}
	for _, e := range s.Cron.GetExpressions() {
		x, err := refParse(e, cfg, jc.Namespace+"/"+jc.Name)
		if err != nil {
			return nil, err
		}
		rs.exprs = append(rs.exprs, x)
	}
	if c := s.Constraints; c != nil {
		if c.NotBefore != nil {
			rs.notBefore = c.NotBefore.Time
		}
		if c.NotAfter != nil {
			rs.notAfter = c.NotAfter.Time
		}
	}
	return rs, nil
}

// next returns the earliest match strictly after t inside the window, or zero.
func (s *refStream) next(t time.Time) time.Time {
	if !s.notBefore.IsZero() && t.Before(s.notBefore) {
		t = s.notBefore.Add(-time.Nanosecond)
	}
	var best time.Time
	for _, e := range s.exprs {
		n := e.Next(t.In(s.zone))
		if n.IsZero() {
			continue
		}
		if best.IsZero() || n.Before(best) {
			best = n
		}
	}
	if best.IsZero() {
		return best
	}
	if !s.notAfter.IsZero() && best.After(s.notAfter) {
		return time.Time{}
	}
	return best
}

// due returns the matches in (cursor, now], at most limit+1 of them.
func (s *refStream) due(cursor, now time.Time, limit int) []time.Time {
	var out []time.Time
	c := cursor
	for len(out) <= limit {
		n := s.next(c)
		if n.IsZero() || n.After(now) {
			break
		}
		out = append(out, n)
		c = n
	}
	return out
}

// refInitialCursor is the C04 bound: the latest of the last recorded schedule
// time (clipped to start - max downtime), the time the schedule was last
// changed; a JobConfig that was never scheduled starts from the start time.
// The notBefore bound is applied by refStream.next.
func refInitialCursor(jc *execution.JobConfig, cfg CronSimCfg, start time.Time) time.Time {
	from := start
	if ls := jc.Status.LastScheduled; ls != nil && !ls.IsZero() {
		from = ls.Time
		if start.Sub(from) > cfg.downtime() {
			from = start.Add(-cfg.downtime())
		}
	}
	if s := jc.Spec.Schedule; s != nil && s.LastUpdated != nil && !s.LastUpdated.IsZero() && s.LastUpdated.Time.After(from) {
		from = s.LastUpdated.Time
	}
	return from
}

func mt(t time.Time) *metav1.Time { x := metav1.NewTime(t); return &x }
