package props

import (
	"testing"

	"pgregory.net/rapid"

	"verif/harness/pbt"
)

var baseProfile = e2Profile{name: "base", maxJCs: 2, lag: true, steps: 60}

func profileWith(p e2Profile, f func(*e2Profile)) e2Profile {
	c := p
	c.weights = map[string]int{}
	for k, v := range p.weights {
		c.weights[k] = v
	}
	f(&c)
	return c
}

func hasAny(labels []string, want ...string) bool {
	for _, l := range labels {
		for _, w := range want {
			if l == w {
				return true
			}
		}
	}
	return false
}

// e2Check wires one property to the shared history generator: the generated
// trace is re-executed on a fresh world with the monitors on, and only the
// oracles of the named properties decide.
func e2Check(t *testing.T, id, name string, checks int, rule string, p e2Profile, props []string, nt func([]string) bool) {
	set := map[string]bool{}
	for _, x := range props {
		set[x] = true
	}
	steps := p.steps
	if pbt.Thorough() {
		steps = steps * 3 / 2
	}
	pbt.Check(t, pbt.Opts{ID: id, Name: name, Checks: checks, ThoroughMul: 12, Rule: rule},
		func(t *rapid.T) E2Trace {
			pp := p
			pp.steps = rapid.IntRange(steps/3, steps).Draw(t, "nsteps")
			tr := genE2Setup(t, pp)
			genE2Ops(t, tr, pp)
			return *tr
		},
		func(tr E2Trace) pbt.Result {
			sel := set
			if len(props) == 0 {
				sel = nil // all monitors; a violation is reported under the check's own property
			}
			res := runE2(tr, sel)
			if len(props) == 0 && res.Violation != nil && res.Violation.Property != id {
				v := *res.Violation
				v.Signature = "safety/" + v.Property + "/" + v.Signature
				v.Property = id
				res.Violation = &v
			}
			res.NonTrivial = nt(res.Labels)
			return res
		})
}

const e2RuleCommon = "history of user / kubelet / informer-delivery / reconcile-step / clock ops drawn from the ops enabled in the live simulated control plane (real controllers, store and webhooks), then driven to quiescence; "

func TestC05_history(t *testing.T) {
	p := profileWith(baseProfile, func(p *e2Profile) {
		p.crashes, p.faults, p.cron = true, true, true
		p.weights["createJob"] = 10
		p.weights["tick"] = 4
	})
	e2Check(t, "C05", "history", 1500, e2RuleCommon+"oracle: every start write of a Forbid/Enqueue Job is judged against the authoritative active set; counter == truth at quiescence; non-trivial = a Job started into the last free slot, a Job waited/was refused at the limit, or the controller restarted; distinct = distinct trace",
		p, []string{"C05"}, func(l []string) bool {
			return hasAny(l, "started-at-last-slot", "enqueue-waiting-at-limit", "rejected-by-queue", "restart")
		})
}

func TestC06_history(t *testing.T) {
	p := profileWith(baseProfile, func(p *e2Profile) {
		p.weights["createJob"] = 12
		p.maxJCs = 1
		p.faults, p.cron = true, true
		p.weights["tick"] = 4
	})
	e2Check(t, "C06", "history", 1500, e2RuleCommon+"oracle: rejection / FIFO monitors on every write + fixpoint predicate; non-trivial = a Forbid Job refused at the limit or an Enqueue Job waiting at the limit; distinct = distinct trace",
		p, []string{"C06"}, func(l []string) bool { return hasAny(l, "rejected-by-queue", "enqueue-waiting-at-limit") })
}

func TestC07_history(t *testing.T) {
	p := profileWith(baseProfile, func(p *e2Profile) { p.weights["createJob"] = 10; p.weights["advance"] = 10 })
	e2Check(t, "C07", "history", 1500, e2RuleCommon+"oracle: clock at every start write >= startAfter; every due Job started at the fixpoint; non-trivial = a Job with startAfter was started; distinct = distinct trace",
		p, []string{"C07"}, func(l []string) bool { return hasAny(l, "has-startAfter") })
}

func TestC08_history(t *testing.T) {
	p := profileWith(baseProfile, func(p *e2Profile) { p.weights["k-finish"] = 12; p.weights["deletePod"] = 2 })
	e2Check(t, "C08", "history", 1500, e2RuleCommon+"oracle: every Pod create by the job controller judged against the authoritative Pods of the Job, the creation ledger and the clock; non-trivial = a retry was created or the Job has >= 2 indexes; distinct = distinct trace",
		p, []string{"C08"}, func(l []string) bool { return hasAny(l, "retry-created", "parallel-job") })
}

func TestC10_history(t *testing.T) {
	p := profileWith(baseProfile, func(p *e2Profile) { p.weights["k-finish"] = 12; p.weights["deletePod"] = 2; p.weights["k-restart"] = 8 })
	e2Check(t, "C10", "history", 1500, e2RuleCommon+"oracle: result at the terminal write and at quiescence vs the kubelet model's ground-truth outcomes; non-trivial = indexes with different outcomes or a retry; distinct = distinct trace",
		p, []string{"C10"}, func(l []string) bool { return hasAny(l, "mixed-index-outcomes", "retry-created") })
}

func TestC11_history(t *testing.T) {
	p := profileWith(baseProfile, func(p *e2Profile) { p.weights["k-flap"] = 4; p.weights["deletePod"] = 2; p.faults = true })
	e2Check(t, "C11", "history", 1500, e2RuleCommon+"oracle: pairwise monotonicity on every Job write + coherence of every status the job controller writes; non-trivial = a status with tasks was written; distinct = distinct trace",
		p, []string{"C11"}, func(l []string) bool { return hasAny(l, "status-with-tasks") })
}

func TestC12_history(t *testing.T) {
	p := profileWith(baseProfile, func(p *e2Profile) { p.weights["kill"] = 6; p.weights["advance"] = 10; p.weights["k-terminate"] = 3 })
	e2Check(t, "C12", "history", 1500, e2RuleCommon+"oracle: every controller-issued Pod delete needs a justification (kill time passed, pending timeout, decided strategy, Job deletion; force only after the timeout and never when forbidden); killed Jobs are over at the fixpoint; non-trivial = a kill or pending deadline was crossed; distinct = distinct trace",
		p, []string{"C12"}, func(l []string) bool { return hasAny(l, "deadline-crossed", "pending-timeout-delete", "force-delete") })
}

func TestC13_history(t *testing.T) {
	p := profileWith(baseProfile, func(p *e2Profile) { p.weights["deleteJob"] = 6; p.weights["k-terminate"] = 3; p.weights["orphanPod"] = 4 })
	e2Check(t, "C13", "history", 1500, e2RuleCommon+"oracle: the entry that removes a Job sees none of its Pods; controller-issued Job deletes only after finish + TTL; deletions complete and TTLs expire at the fixpoint; non-trivial = a Job was removed or a TTL expired; distinct = distinct trace",
		p, []string{"C13"}, func(l []string) bool { return hasAny(l, "job-removed", "ttl-expiry") })
}

func TestC15_history(t *testing.T) {
	p := profileWith(baseProfile, func(p *e2Profile) {
		p.weights["deleteJob"] = 4
		p.weights["createJob"] = 10
		p.cron = true
		p.weights["tick"] = 4
	})
	e2Check(t, "C15", "history", 1500, e2RuleCommon+"oracle: JobConfig status == authoritative queued/active sets, counts and state at quiescence; lastScheduled/lastExecuted monotone on every write and >= every existing Job; non-trivial = a Job was removed during the run; distinct = distinct trace",
		p, []string{"C15"}, func(l []string) bool { return hasAny(l, "job-removed") })
}

func TestC09_history(t *testing.T) {
	p := profileWith(baseProfile, func(p *e2Profile) {
		p.crashes, p.faults, p.foreignPods = true, true, true
		p.weights["k-finish"] = 10
		p.weights["deletePod"] = 2
	})
	e2Check(t, "C09", "history", 1500, e2RuleCommon+"with injected API faults (rejected, timeout, conflict, applied-but-reported-failed) by call signature, armed crashes at the k-th call of a reconcile, restarts, and foreign Pods planted on future task names; oracle: listing / no-duplicate-attempt / refs-never-dropped / never-lost-while-alive monitors + fixpoint; non-trivial = a fault, crash or foreign Pod occurred; distinct = distinct trace",
		p, []string{"C09"}, func(l []string) bool {
			return hasAny(l, "crashed", "restart", "foreign-pod", "fault:reject", "fault:timeout", "fault:conflict", "fault:commit-timeout")
		})
}

// TestC07_isolated: tiny workloads (one or two Jobs, nothing else going on), so
// that only the controller's own deferred re-sync can start a Job whose
// startAfter comes due.
func TestC07_isolated(t *testing.T) {
	p := profileWith(baseProfile, func(p *e2Profile) {
		p.maxJCs, p.maxJobs, p.steps = 1, 2, 14
		p.weights["createJob"] = 10
		p.weights["advance"] = 6
		p.weights["kill"] = 0
		p.weights["deleteJob"] = 0
		p.weights["resync"] = 0
	})
	e2Check(t, "C07", "isolated", 1200, "as history, but with at most two Jobs and no other activity, so that a due startAfter can only be honoured by the controller's own deferred re-sync; non-trivial = a Job with startAfter was started; distinct = distinct trace",
		p, []string{"C07"}, func(l []string) bool { return hasAny(l, "has-startAfter") })
}

func TestC04_history(t *testing.T) {
	p := profileWith(baseProfile, func(p *e2Profile) {
		p.cron, p.crashes = true, true
		p.weights["tick"] = 14
		p.weights["advance"] = 12
		p.weights["createJob"] = 0
		p.weights["restart"] = 3
		p.weights["crash"] = 2
		p.weights["kill"] = 0
	})
	e2Check(t, "C04", "history", 1200, e2RuleCommon+"cron workloads with crashes and restarts at generated instants; the real JobConfig controller persists status.lastScheduled, the restarted cron worker reads it; oracle: no schedule time at or before the lastScheduled persisted at the restart instant is requested again, and no schedule time older than start - maxDowntime; non-trivial = a restart happened with a persisted lastScheduled and at least one request afterwards; distinct = distinct trace",
		p, []string{"C04"}, func(l []string) bool { return hasAny(l, "request-after-restart") })
}

// TestC15_isolated: one JobConfig, at most two Jobs, lots of independent lag
// between the Job and JobConfig caches: nothing but the controller's own
// JobConfig events can repair a status that was compared against a stale cache.
func TestC15_isolated(t *testing.T) {
	p := profileWith(baseProfile, func(p *e2Profile) {
		p.maxJCs, p.maxJobs, p.steps = 1, 2, 22
		p.weights["createJob"] = 8
		p.weights["deleteJob"] = 8
		p.weights["deliver"] = 10
		p.weights["step"] = 10
		p.weights["settle"] = 1
		p.weights["kill"] = 0
		p.weights["advance"] = 1
		p.weights["resync"] = 0
		p.weights["deletePod"] = 0
	})
	e2Check(t, "C15", "isolated", 1500, "as history, but with one JobConfig and at most two Jobs under heavy independent lag of the Job and JobConfig caches; the status is judged at quiescence before any resync; non-trivial = a Job was removed during the run; distinct = distinct trace",
		p, []string{"C15"}, func(l []string) bool { return hasAny(l, "job-removed") })
}

// TestC20_history: the unrestricted workload (mixed per-Job policies, Forbid
// under churn, cron at the queue limit: everything the differential has to leave
// out because its fault-free outcome is order-dependent) under generated fault
// patterns, judged by every safety monitor along the way and by the convergence
// predicates (due Jobs started, results implied by the tasks, deletions and TTLs
// completed, counters and JobConfig status equal to the truth) once calls
// succeed again.
func TestC20_history(t *testing.T) {
	p := profileWith(baseProfile, func(p *e2Profile) {
		p.faults, p.cron = true, true
		p.weights["fault"] = 8
		p.weights["createJob"] = 8
		p.weights["tick"] = 4
		p.weights["k-finish"] = 10
	})
	e2Check(t, "C20", "history", 1200, e2RuleCommon+"unrestricted workloads (per-Job policy overrides, Forbid, cron at the queue limit, cache lag) with generated transient API faults (rejected, timeout, conflict, applied-but-reported-failed; by actor/verb signature, bursts up to 3); oracle: all C02/C05-C13/C15 monitors on every write while the faults are active, and the convergence predicates after the faults are cleared and the system is driven to quiescence; non-trivial = a fault was injected; distinct = distinct trace",
		p, nil, func(l []string) bool {
			return hasAny(l, "fault:reject", "fault:timeout", "fault:conflict", "fault:commit-timeout")
		})
}

// TestC08_backoff: parallel Jobs whose containers mostly fail, several attempts,
// retry delays of 5-120 s and clock steps around those delays: several indexes
// of one Job are in back-off at once, one due and another not yet.
func TestC08_backoff(t *testing.T) {
	p := profileWith(baseProfile, func(p *e2Profile) {
		p.retryHeavy = true
		p.maxJCs, p.maxJobs, p.steps = 1, 2, 50
		p.weights["createJob"] = 6
		p.weights["k-finish"] = 14
		p.weights["k-schedule"] = 10
		p.weights["k-run"] = 10
		p.weights["advance"] = 10
		p.weights["settle"] = 12
		p.weights["kill"] = 0
		p.weights["deleteJob"] = 0
		p.weights["deletePod"] = 1
	})
	e2Check(t, "C08", "backoff", 1200, "as history, but every Job is parallel (2-3 indexes, 2-5 attempts, retry delay 5-120 s), containers mostly fail and the clock moves in steps around the retry delays, so that several indexes are in back-off at once with different due times; non-trivial = a retry was created after a delay; distinct = distinct trace",
		p, []string{"C08"}, func(l []string) bool { return hasAny(l, "retry-after-delay") })
}

// TestC12_force: kills and deletions of Jobs whose Pods are scheduled and linger
// in termination (the kubelet model confirms a termination rarely), a force-delete
// timeout of 10-20 s, a third of the JobConfigs forbidding force deletion, clock
// steps around the timeout.
func TestC12_force(t *testing.T) {
	p := profileWith(baseProfile, func(p *e2Profile) {
		p.forceHeavy = true
		p.lag = false // settle-driven: the chain create - schedule - kill - wait has to complete often
		p.maxJCs, p.maxJobs, p.steps = 2, 4, 50
		p.weights["createJob"] = 8
		p.weights["kill"] = 12
		p.weights["deleteJob"] = 3
		p.weights["deletePod"] = 3
		p.weights["k-schedule"] = 16
		p.weights["k-run"] = 4
		p.weights["k-finish"] = 1
		p.weights["k-restart"] = 0
		p.weights["k-terminate"] = 1
		p.weights["advance"] = 14
		p.weights["settle"] = 16
		p.weights["gc"] = 0
	})
	e2Check(t, "C12", "force", 1200, "as history, but with a force-delete timeout of 10-20 s always configured, a third of the JobConfigs forbidding force deletion, frequent kills of Jobs whose Pods are scheduled and rarely confirmed terminated, and clock steps around the timeout; non-trivial = a force delete happened or a terminating task outlived the timeout where force deletion is forbidden; distinct = distinct trace",
		p, []string{"C12"}, func(l []string) bool { return hasAny(l, "force-delete", "force-forbidden-outlived") })
}

// reapProfile: tasks are reaped by the pending timeout while their Pod is
// scheduled (graceful deletion), and the terminating Pod may still start, exit
// (also with code 0) and only then disappear.
var reapProfile = profileWith(baseProfile, func(p *e2Profile) {
	p.reapHeavy = true
	p.lag = false
	p.maxJCs, p.maxJobs, p.steps = 1, 3, 45
	p.weights["createJob"] = 6
	p.weights["kill"] = 1
	p.weights["deleteJob"] = 1
	p.weights["deletePod"] = 1
	p.weights["k-schedule"] = 16
	p.weights["k-run"] = 2
	p.weights["k-finish"] = 4
	p.weights["k-run-terminating"] = 12
	p.weights["k-finish-terminating"] = 12
	p.weights["k-terminate"] = 6
	p.weights["k-restart"] = 0
	p.weights["advance"] = 12
	p.weights["settle"] = 16
})

func TestC08_reaped(t *testing.T) {
	e2Check(t, "C08", "reaped", 1000, "as history, but a pending timeout of 20 s always applies, Pods are scheduled yet rarely start in time, so tasks are reaped while their Pod terminates gracefully; a terminating Pod may still start and exit (also successfully) before it disappears; 2-3 attempts; non-trivial = a task was reaped by the pending timeout and a retry was created; distinct = distinct trace",
		reapProfile, []string{"C08"}, func(l []string) bool { return hasAny(l, "pending-timeout-delete") && hasAny(l, "retry-created") })
}

func TestC11_reaped(t *testing.T) {
	e2Check(t, "C11", "reaped", 1000, "the reaped workload of C08 (tasks reaped by the pending timeout whose terminating Pod may still start and exit) under the C11 monitors; non-trivial = a task was reaped by the pending timeout; distinct = distinct trace",
		reapProfile, []string{"C11"}, func(l []string) bool { return hasAny(l, "pending-timeout-delete") })
}

// TestC09_foreign: parallel Jobs, foreign Pods planted on task names the Job
// will need, and faults concentrated on the job controller's status writes: tasks
// created in the same pass as the collision stay unrecorded and have to be
// adopted later although the Job may no longer create tasks.
func TestC09_foreign(t *testing.T) {
	p := profileWith(baseProfile, func(p *e2Profile) {
		p.foreignHeavy, p.foreignPods, p.faults = true, true, true
		p.lag = false
		p.maxJCs, p.maxJobs, p.steps = 1, 3, 40
		p.weights["createJob"] = 8
		p.weights["plantPod"] = 10
		p.weights["fault"] = 8
		p.weights["settle"] = 14
		p.weights["kill"] = 1
		p.weights["deleteJob"] = 1
		p.weights["deletePod"] = 1
		p.weights["advance"] = 3
	})
	e2Check(t, "C09", "foreign", 1000, "as history, but every Job is parallel (2-3 indexes), foreign Pods are planted often on the next task name of some index, and the injected faults hit the job controller's own writes (mostly status updates); non-trivial = a foreign Pod was planted and a fault was injected; distinct = distinct trace",
		p, []string{"C09"}, func(l []string) bool {
			return hasAny(l, "foreign-pod") && hasAny(l, "fault:reject", "fault:timeout", "fault:conflict", "fault:commit-timeout")
		})
}

// TestC10_restarts: every Pod has restartPolicy OnFailure; containers fail (also
// by OOM) and are restarted in place, possibly several times, before they exit
// for good - the final exit decides, not an earlier incarnation.
func TestC10_restarts(t *testing.T) {
	p := profileWith(baseProfile, func(p *e2Profile) {
		p.restartHeavy = true
		p.lag = false
		p.maxJCs, p.maxJobs, p.steps = 2, 4, 45
		p.weights["createJob"] = 8
		p.weights["k-schedule"] = 12
		p.weights["k-run"] = 12
		p.weights["k-restart"] = 12
		p.weights["k-finish"] = 10
		p.weights["kill"] = 1
		p.weights["deleteJob"] = 1
		p.weights["deletePod"] = 1
		p.weights["settle"] = 14
		p.weights["advance"] = 4
	})
	e2Check(t, "C10", "restarts", 1000, "as history, but every Pod has restartPolicy OnFailure and containers are often restarted in place (after an error or an OOM kill) before their final exit; non-trivial = a Job became terminal after one of its containers had been restarted in place; distinct = distinct trace",
		p, []string{"C10"}, func(l []string) bool { return hasAny(l, "container-restarted") })
}

// TestC06_queue: Enqueue JobConfigs with a limit of 1-2 and long queues; queued
// Jobs (often the head of the queue) are deleted while the controller's Job cache
// lags, active Jobs finish, and the queue has to keep moving.
func TestC06_queue(t *testing.T) {
	p := profileWith(baseProfile, func(p *e2Profile) {
		p.enqueueHeavy = true
		p.maxJCs, p.maxJobs, p.steps = 1, 6, 55
		p.weights["createJob"] = 14
		p.weights["deleteJob"] = 10
		p.weights["kill"] = 1
		p.weights["deletePod"] = 0
		p.weights["k-schedule"] = 8
		p.weights["k-run"] = 8
		p.weights["k-finish"] = 12
		p.weights["k-terminate"] = 6
		p.weights["settleLag"] = 6
		p.weights["deliver"] = 12
		p.weights["step"] = 16
		p.weights["settle"] = 4
		p.weights["advance"] = 3
	})
	e2Check(t, "C06", "queue", 1000, "as history, but every JobConfig uses Enqueue with maxConcurrency 1-2, Jobs do not override the policy, queues are long, queued Jobs are deleted often (also while the controller's Job cache lags) and active Jobs finish; non-trivial = an Enqueue Job waited at the limit and a Job was removed; distinct = distinct trace",
		p, []string{"C06"}, func(l []string) bool { return hasAny(l, "enqueue-waiting-at-limit") && hasAny(l, "job-removed") })
}

func TestC10_reaped(t *testing.T) {
	e2Check(t, "C10", "reaped", 1000, "the reaped workload of C08 (tasks reaped by the pending timeout whose terminating Pod may still start and exit, also successfully, before it disappears) under the C10 oracles; non-trivial = a task was reaped by the pending timeout; distinct = distinct trace",
		reapProfile, []string{"C10"}, func(l []string) bool { return hasAny(l, "pending-timeout-delete") })
}

// TestC12_flapped: a 20 s pending timeout always applies; Pods start running and
// then stop reporting it for a while (container statuses gone, or phase Pending
// again after a node reboot) while the clock passes the pending deadline: a task
// that has begun running must not be reaped as pending.
func TestC12_flapped(t *testing.T) {
	p := profileWith(baseProfile, func(p *e2Profile) {
		p.reapHeavy = true
		p.lag = false
		p.maxJCs, p.maxJobs, p.steps = 1, 3, 40
		p.weights["createJob"] = 6
		p.weights["kill"] = 0
		p.weights["deleteJob"] = 0
		p.weights["deletePod"] = 0
		p.weights["k-schedule"] = 14
		p.weights["k-run"] = 14
		p.weights["k-finish"] = 2
		p.weights["k-flap"] = 12
		p.weights["k-unflap"] = 3
		p.weights["k-terminate"] = 3
		p.weights["k-restart"] = 0
		p.weights["advance"] = 12
		p.weights["settle"] = 14
	})
	e2Check(t, "C12", "flapped", 1000, "as history, but a 20 s pending timeout always applies and running Pods often stop reporting that they run (container statuses disappear, or the phase goes back to Pending) while the clock passes creation + timeout; non-trivial = a running Pod stopped reporting it and a pending deadline was crossed; distinct = distinct trace",
		p, []string{"C12"}, func(l []string) bool {
			return hasAny(l, "running-pod-reported-pending", "running-pod-lost-container-status") && hasAny(l, "deadline-crossed")
		})
}
