package props

import (
	"encoding/json"
	"fmt"
	"sort"
	"strings"
	"time"

	"pgregory.net/rapid"

	execution "github.com/furiko-io/furiko/apis/execution/v1alpha1"
)

// ---------- option spec generator (shared by C16, C17, C18) ----------

var optNames = []string{"a", "b", "opt", "opt.x", "opt-y", "opt_z", "A", "0", "name", "image.tag"}
var optWords = []string{"x", "y", "z", "foo", "bar", "foo bar", " lead", "trail ", "v1.2", "a,b", "1", "true", "ü"}

func genWord(t *rapid.T, label string, allowVar bool) string {
	gens := []*rapid.Generator[string]{
		rapid.SampledFrom(optWords),
		rapid.StringMatching(`[a-z0-9]{1,6}`),
	}
	if allowVar {
		gens = append(gens, rapid.SampledFrom([]string{"${job.name}", "x${option.a}y", "${task.index_num}", "${custom.x}", "${option.b}", "$", "${", "${}"}))
	}
	return rapid.OneOf(gens...).Draw(t, label)
}

// genOption draws one option; valid=true builds one accepted by validation by
// construction, valid=false may also produce rejected shapes.
func genOption(t *rapid.T, name string, valid bool, allowVar bool) execution.Option {
	typ := rapid.SampledFrom(execution.OptionTypesAll).Draw(t, "otype")
	o := execution.Option{Type: typ, Name: name}
	if rapid.IntRange(0, 3).Draw(t, "lbl") == 0 {
		o.Label = "Label " + name
	}
	req := rapid.IntRange(0, 2).Draw(t, "req") == 0
	switch typ {
	case execution.OptionTypeBool:
		f := rapid.SampledFrom([]execution.BoolOptionFormat{"", execution.BoolOptionFormatTrueFalse, execution.BoolOptionFormatOneZero,
			execution.BoolOptionFormatYesNo, execution.BoolOptionFormatCustom}).Draw(t, "bfmt")
		if rapid.IntRange(0, 5).Draw(t, "bnil") == 0 {
			// no config at all: defaulting must fill it in
		} else {
			o.Bool = &execution.BoolOptionConfig{Default: rapid.Bool().Draw(t, "bdef"), Format: f}
			if f == execution.BoolOptionFormatCustom {
				o.Bool.TrueVal = rapid.SampledFrom([]string{"", "--flag", "on", "1"}).Draw(t, "tv")
				o.Bool.FalseVal = rapid.SampledFrom([]string{"", "--no-flag", "off", "0"}).Draw(t, "fv")
			}
		}
		if !valid && req {
			o.Required = true
		}
	case execution.OptionTypeString:
		o.Required = req
		if rapid.IntRange(0, 4).Draw(t, "snil") != 0 {
			o.String = &execution.StringOptionConfig{TrimSpaces: rapid.Bool().Draw(t, "trim")}
			if rapid.Bool().Draw(t, "sdefp") {
				o.String.Default = rapid.OneOf(rapid.Just(""), rapid.Just("  "), rapid.Custom(func(t *rapid.T) string { return genWord(t, "sdef", allowVar) })).Draw(t, "sdefv")
			}
		}
	case execution.OptionTypeSelect:
		o.Required = req
		n := rapid.IntRange(1, 4).Draw(t, "nsel")
		vals := distinctWords(t, n, allowVar)
		o.Select = &execution.SelectOptionConfig{Values: vals, AllowCustom: rapid.Bool().Draw(t, "selcustom")}
		if rapid.Bool().Draw(t, "seldefp") {
			o.Select.Default = rapid.SampledFrom(vals).Draw(t, "seldef")
		}
		if !valid && rapid.IntRange(0, 3).Draw(t, "selbad") == 0 {
			o.Select.Default = "not-in-values"
		}
	case execution.OptionTypeMulti:
		o.Required = req
		n := rapid.IntRange(1, 4).Draw(t, "nmul")
		vals := distinctWords(t, n, allowVar)
		o.Multi = &execution.MultiOptionConfig{Values: vals, AllowCustom: rapid.Bool().Draw(t, "mulcustom"),
			Delimiter: rapid.SampledFrom([]string{",", "", " ", ";", "--"}).Draw(t, "delim")}
		nd := rapid.IntRange(0, n).Draw(t, "nmuldef")
		for i := 0; i < nd; i++ {
			o.Multi.Default = append(o.Multi.Default, vals[(i*2)%n])
		}
		if !valid && rapid.IntRange(0, 3).Draw(t, "mulbad") == 0 {
			o.Multi.Default = append(o.Multi.Default, "not-in-values")
		}
	case execution.OptionTypeDate:
		o.Required = req
		if rapid.IntRange(0, 3).Draw(t, "dnil") != 0 {
			o.Date = &execution.DateOptionConfig{Format: rapid.SampledFrom(dateFormats).Draw(t, "dfmt")}
		}
	}
	if !valid {
		switch rapid.IntRange(0, 11).Draw(t, "corrupt") {
		case 0:
			o.Type = "Nope"
		case 1:
			o.Name = "bad name!"
		case 2:
			o.String = &execution.StringOptionConfig{Default: "stray"}
			o.Date = &execution.DateOptionConfig{}
		}
	}
	return o
}

func distinctWords(t *rapid.T, n int, allowVar bool) []string {
	seen := map[string]bool{}
	var out []string
	for len(out) < n {
		w := genWord(t, "val", allowVar)
		if seen[w] {
			w = w + fmt.Sprint(len(out))
		}
		if seen[w] || w == "" {
			continue
		}
		seen[w] = true
		out = append(out, w)
	}
	return out
}

func genOptionSpec(t *rapid.T, maxOpts int, valid bool, allowVar bool) *execution.OptionSpec {
	n := rapid.IntRange(0, maxOpts).Draw(t, "nopts")
	if n == 0 && rapid.Bool().Draw(t, "nilspec") {
		return nil
	}
	spec := &execution.OptionSpec{}
	used := map[string]bool{}
	for i := 0; i < n; i++ {
		name := rapid.SampledFrom(optNames).Draw(t, "oname")
		if used[name] {
			if valid || rapid.IntRange(0, 2).Draw(t, "dupname") != 0 {
				name = fmt.Sprintf("%s%d", name, i)
			}
		}
		used[name] = true
		spec.Options = append(spec.Options, genOption(t, name, valid, allowVar))
	}
	return spec
}

// ---------- date formats with an independent Go rendering ----------

var dateFormats = []string{"", "YYYY-MM-DD", "YYYY-MM-DD HH:mm:ss", "DD/MM/YYYY", "HHmm", "YYYYMMDD"}

func refDateFormat(ts time.Time, format string) string {
	switch format {
	case "":
		return ts.Format("2006-01-02T15:04:05-07:00")
	case "YYYY-MM-DD":
		return ts.Format("2006-01-02")
	case "YYYY-MM-DD HH:mm:ss":
		return ts.Format("2006-01-02 15:04:05")
	case "DD/MM/YYYY":
		return ts.Format("02/01/2006")
	case "HHmm":
		return ts.Format("1504")
	case "YYYYMMDD":
		return ts.Format("20060102")
	}
	panic("unknown format " + format)
}

var dateStrings = []string{"2022-03-04T05:06:07Z", "2024-02-29T23:59:59+08:00", "1999-12-31T00:00:00-05:30", "2021-01-01T12:00:00.5Z"}

// ---------- option values: generated as JSON text, decoded like admission does ----------

// genOptionValues draws a value (or none) for every option plus some unknown
// keys, and returns the JSON object.
func genOptionValues(t *rapid.T, spec *execution.OptionSpec, allowVar bool) map[string]interface{} {
	vals := map[string]interface{}{}
	if spec == nil {
		return vals
	}
	for _, o := range spec.Options {
		cls := rapid.SampledFrom([]string{"missing", "missing", "null", "good", "good", "good", "custom", "empty", "wrongtype"}).Draw(t, "vclass:"+o.Name)
		switch cls {
		case "missing":
			continue
		case "null":
			vals[o.Name] = nil
			continue
		case "wrongtype":
			vals[o.Name] = rapid.SampledFrom([]interface{}{float64(3), true, "str", []interface{}{float64(1)}, map[string]interface{}{"k": "v"}, []interface{}{"x", nil}}).Draw(t, "wrong")
			continue
		}
		switch o.Type {
		case execution.OptionTypeBool:
			vals[o.Name] = rapid.Bool().Draw(t, "bv")
		case execution.OptionTypeString:
			switch cls {
			case "empty":
				vals[o.Name] = rapid.SampledFrom([]string{"", " ", "\t "}).Draw(t, "sv")
			default:
				vals[o.Name] = genWord(t, "sv", allowVar)
			}
		case execution.OptionTypeSelect:
			switch {
			case cls == "empty":
				vals[o.Name] = ""
			case cls == "custom" || o.Select == nil || len(o.Select.Values) == 0:
				vals[o.Name] = genCustom(t, selValues(o), allowVar)
			default:
				vals[o.Name] = rapid.SampledFrom(o.Select.Values).Draw(t, "selv")
			}
		case execution.OptionTypeMulti:
			var l []interface{}
			switch {
			case cls == "empty":
				if rapid.Bool().Draw(t, "emptyelem") {
					l = []interface{}{""}
				} else {
					l = []interface{}{}
				}
			case cls == "custom" || o.Multi == nil || len(o.Multi.Values) == 0:
				l = []interface{}{genCustom(t, mulValues(o), allowVar)}
				if o.Multi != nil && len(o.Multi.Values) > 0 && rapid.Bool().Draw(t, "mixcustom") {
					l = append(l, rapid.SampledFrom(o.Multi.Values).Draw(t, "mulv"))
				}
			default:
				n := rapid.IntRange(1, 3).Draw(t, "nmv")
				for i := 0; i < n; i++ {
					l = append(l, rapid.SampledFrom(o.Multi.Values).Draw(t, "mulv"))
				}
			}
			vals[o.Name] = l
		case execution.OptionTypeDate:
			switch cls {
			case "empty":
				vals[o.Name] = ""
			case "custom":
				vals[o.Name] = rapid.SampledFrom([]string{"yesterday", "2022-13-01T00:00:00Z", "2022-03-04"}).Draw(t, "baddate")
			default:
				vals[o.Name] = rapid.SampledFrom(dateStrings).Draw(t, "date")
			}
		}
	}
	if rapid.IntRange(0, 4).Draw(t, "unknownkey") == 0 {
		vals["no-such-option"] = "x"
	}
	return vals
}

func selValues(o execution.Option) []string {
	if o.Select == nil {
		return nil
	}
	return o.Select.Values
}

func mulValues(o execution.Option) []string {
	if o.Multi == nil {
		return nil
	}
	return o.Multi.Values
}

// genCustom draws a value meant to lie outside the allowed list (the reference
// evaluator decides membership, so nothing depends on that): a marked word, a
// bare short word, or a near miss of an allowed value (suffix, prefix, case).
func genCustom(t *rapid.T, allowed []string, allowVar bool) string {
	w := genWord(t, "cv", allowVar)
	kinds := []string{"marked", "bare"}
	if len(allowed) > 0 {
		kinds = append(kinds, "suffix", "prefix", "case")
	}
	switch rapid.SampledFrom(kinds).Draw(t, "customKind") {
	case "bare":
		return w
	case "suffix":
		return rapid.SampledFrom(allowed).Draw(t, "near") + "x"
	case "prefix":
		a := rapid.SampledFrom(allowed).Draw(t, "near")
		if len(a) > 1 {
			return a[:len(a)-1]
		}
		return a + a
	case "case":
		return strings.ToUpper(rapid.SampledFrom(allowed).Draw(t, "near"))
	}
	return "custom-" + w
}

// decodeLikeAdmission round-trips through JSON so that the dynamic types are
// exactly those the mutating webhook sees (float64, []interface{}, nil).
func decodeLikeAdmission(vals map[string]interface{}) map[string]interface{} {
	b, _ := json.Marshal(vals)
	out := map[string]interface{}{}
	_ = json.Unmarshal(b, &out)
	return out
}

// ---------- reference evaluator, written from the API documentation ----------

func contains(l []string, s string) bool {
	for _, x := range l {
		if x == s {
			return true
		}
	}
	return false
}

func refBool(cfg *execution.BoolOptionConfig, v bool) (string, bool) {
	if cfg == nil {
		cfg = &execution.BoolOptionConfig{}
	}
	switch cfg.Format {
	case execution.BoolOptionFormatTrueFalse:
		if v {
			return "true", true
		}
		return "false", true
	case execution.BoolOptionFormatOneZero:
		if v {
			return "1", true
		}
		return "0", true
	case execution.BoolOptionFormatYesNo:
		if v {
			return "yes", true
		}
		return "no", true
	case execution.BoolOptionFormatCustom:
		if v {
			return cfg.TrueVal, true
		}
		return cfg.FalseVal, true
	}
	return "", false
}

// refEvalOption returns (value, ok). given=false means the key is absent or null.
func refEvalOption(o execution.Option, given bool, val interface{}) (string, bool) {
	switch o.Type {
	case execution.OptionTypeBool:
		cfg := o.Bool
		if cfg == nil {
			cfg = &execution.BoolOptionConfig{}
		}
		b := cfg.Default
		if given {
			bv, ok := val.(bool)
			if !ok {
				return "", false
			}
			b = bv
		}
		return refBool(cfg, b)
	case execution.OptionTypeString:
		cfg := o.String
		if cfg == nil {
			cfg = &execution.StringOptionConfig{}
		}
		s := cfg.Default
		if given {
			sv, ok := val.(string)
			if !ok {
				return "", false
			}
			s = sv
		}
		if cfg.TrimSpaces {
			s = strings.TrimSpace(s)
		}
		if o.Required && s == "" {
			return "", false
		}
		return s, true
	case execution.OptionTypeSelect:
		cfg := o.Select
		if cfg == nil {
			cfg = &execution.SelectOptionConfig{}
		}
		s := cfg.Default
		if given {
			sv, ok := val.(string)
			if !ok {
				return "", false
			}
			s = sv
		}
		if s == "" {
			if o.Required {
				return "", false
			}
			return "", true
		}
		if !cfg.AllowCustom && !contains(cfg.Values, s) {
			return "", false
		}
		return s, true
	case execution.OptionTypeMulti:
		cfg := o.Multi
		if cfg == nil {
			cfg = &execution.MultiOptionConfig{}
		}
		var l []string
		if given {
			lv, ok := val.([]interface{})
			if !ok {
				return "", false
			}
			for _, e := range lv {
				es, ok := e.(string)
				if !ok {
					return "", false
				}
				l = append(l, es)
			}
		}
		if len(l) == 0 { // an empty list counts as "no value given"
			l = cfg.Default
		}
		if len(l) == 0 && o.Required {
			return "", false
		}
		for _, e := range l {
			if e == "" {
				return "", false
			}
			if !cfg.AllowCustom && !contains(cfg.Values, e) {
				return "", false
			}
		}
		return strings.Join(l, cfg.Delimiter), true
	case execution.OptionTypeDate:
		cfg := o.Date
		if cfg == nil {
			cfg = &execution.DateOptionConfig{}
		}
		s := ""
		if given {
			sv, ok := val.(string)
			if !ok {
				return "", false
			}
			s = sv
		}
		if s == "" {
			if o.Required {
				return "", false
			}
			return "", true
		}
		ts, err := time.Parse(time.RFC3339, s)
		if err != nil {
			return "", false
		}
		if ts.IsZero() {
			if o.Required {
				return "", false
			}
			return "", true
		}
		return refDateFormat(ts, cfg.Format), true
	}
	return "", false
}

// refEvaluate returns the expected substitution map, or ok=false if the Job
// must be rejected.
func refEvaluate(spec *execution.OptionSpec, vals map[string]interface{}) (map[string]string, bool) {
	out := map[string]string{}
	if spec == nil {
		return out, true
	}
	ok := true
	for _, o := range spec.Options {
		v, present := vals[o.Name]
		given := present && v != nil
		s, good := refEvalOption(o, given, v)
		if !good {
			ok = false
			continue
		}
		out["option."+o.Name] = s
	}
	return out, ok
}

func sortedKeys(m map[string]string) []string {
	ks := make([]string, 0, len(m))
	for k := range m {
		ks = append(ks, k)
	}
	sort.Strings(ks)
	return ks
}

func hasVarSyntax(s string) bool { return strings.Contains(s, "${") }
