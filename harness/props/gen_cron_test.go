package props

import (
	"fmt"
	"strings"

	"pgregory.net/rapid"
)

// ---------- cron expression grammar (5, 6 and 7 fields) ----------
//
// 5 fields: minute hour dom month dow
// 6 fields: minute hour dom month dow year
// 7 fields: second minute hour dom month dow year

type cronFieldKind int

const (
	fSecond cronFieldKind = iota
	fMinute
	fHour
	fDom
	fMonth
	fDow
	fYear
)

type fieldRange struct{ min, max int }

var fieldRanges = map[cronFieldKind]fieldRange{
	fSecond: {0, 59}, fMinute: {0, 59}, fHour: {0, 23}, fDom: {1, 31}, fMonth: {1, 12}, fDow: {0, 6}, fYear: {2020, 2035},
}

var monthNames = []string{"JAN", "FEB", "MAR", "APR", "MAY", "JUN", "JUL", "AUG", "SEP", "OCT", "NOV", "DEC"}
var dowNames = []string{"SUN", "MON", "TUE", "WED", "THU", "FRI", "SAT"}

type cronGenOpts struct {
	AllowHash    bool // H, H/k, H(a-b)
	AllowSpecial bool // L, nW, d#k, names
	Quartz       bool // day-of-week 1-7
	Sparse       bool // prefer expressions that fire rarely (hours/days) rather than every second/minute
}

func genNumber(t *rapid.T, k cronFieldKind, o cronGenOpts, label string) int {
	r := fieldRanges[k]
	if k == fDow && o.Quartz {
		return rapid.IntRange(1, 7).Draw(t, label)
	}
	return rapid.IntRange(r.min, r.max).Draw(t, label)
}

func numStr(t *rapid.T, k cronFieldKind, n int, o cronGenOpts) string {
	if o.AllowSpecial && rapid.IntRange(0, 3).Draw(t, "asname") == 0 {
		switch k {
		case fMonth:
			return monthNames[n-1]
		case fDow:
			if o.Quartz {
				return dowNames[n-1]
			}
			return dowNames[n%7]
		}
	}
	if n < 10 && k != fYear && rapid.IntRange(0, 5).Draw(t, "lead0") == 0 {
		return fmt.Sprintf("0%d", n)
	}
	return fmt.Sprint(n)
}

// genEntry draws one comma-separated entry of a field.
func genEntry(t *rapid.T, k cronFieldKind, o cronGenOpts) string {
	r := fieldRanges[k]
	if k == fDow && o.Quartz {
		r = fieldRange{1, 7}
	}
	kinds := []string{"one", "one", "span", "step", "spanstep"}
	if o.AllowHash && k != fYear && k != fDom {
		kinds = append(kinds, "hash", "hashstep", "hashrange")
	}
	if o.AllowHash && k == fDom {
		kinds = append(kinds, "hash")
	}
	if o.AllowSpecial && k == fDom {
		kinds = append(kinds, "L", "W", "LW")
	}
	if o.AllowSpecial && k == fDow {
		kinds = append(kinds, "nth", "lastdow")
	}
	switch rapid.SampledFrom(kinds).Draw(t, "entrykind") {
	case "one":
		return numStr(t, k, genNumber(t, k, o, "n"), o)
	case "span":
		a := genNumber(t, k, o, "a")
		b := rapid.IntRange(a, r.max).Draw(t, "b")
		return numStr(t, k, a, o) + "-" + numStr(t, k, b, o)
	case "step":
		return fmt.Sprintf("*/%d", rapid.IntRange(1, max(1, (r.max-r.min+1)/2)).Draw(t, "step"))
	case "spanstep":
		a := genNumber(t, k, o, "a")
		b := rapid.IntRange(a, r.max).Draw(t, "b")
		return fmt.Sprintf("%d-%d/%d", a, b, rapid.IntRange(1, max(1, b-a+1)).Draw(t, "step"))
	case "hash":
		return "H"
	case "hashstep":
		return fmt.Sprintf("H/%d", rapid.IntRange(1, max(1, (r.max-r.min+1)/2)).Draw(t, "step"))
	case "hashrange":
		a := genNumber(t, k, o, "a")
		b := rapid.IntRange(a, r.max).Draw(t, "b")
		return fmt.Sprintf("H(%d-%d)", a, b)
	case "L":
		return "L"
	case "W":
		return fmt.Sprintf("%dW", rapid.IntRange(1, 31).Draw(t, "w"))
	case "LW":
		return "LW"
	case "nth":
		return fmt.Sprintf("%s#%d", numStr(t, k, genNumber(t, k, o, "n"), cronGenOpts{Quartz: o.Quartz}), rapid.IntRange(1, 5).Draw(t, "nth"))
	case "lastdow":
		return fmt.Sprintf("%dL", genNumber(t, k, o, "n"))
	}
	return "*"
}

func genField(t *rapid.T, k cronFieldKind, o cronGenOpts, starBias int) string {
	if rapid.IntRange(0, 9).Draw(t, "star") < starBias {
		return "*"
	}
	n := 1
	if rapid.IntRange(0, 3).Draw(t, "list") == 0 {
		n = rapid.IntRange(2, 3).Draw(t, "nentries")
	}
	parts := make([]string, n)
	for i := range parts {
		parts[i] = genEntry(t, k, o)
	}
	return strings.Join(parts, ",")
}

// genCronExpr draws a syntactically valid expression of nfields (5, 6 or 7).
func genCronExpr(t *rapid.T, nfields int, o cronGenOpts) string {
	var fs []string
	if nfields == 7 {
		if o.Sparse {
			fs = append(fs, genField(t, fSecond, cronGenOpts{AllowHash: o.AllowHash}, 0))
		} else {
			fs = append(fs, genField(t, fSecond, o, 3))
		}
	}
	minStar, hourStar := 3, 5
	if o.Sparse {
		minStar, hourStar = 0, 3
	}
	fs = append(fs, genField(t, fMinute, o, minStar), genField(t, fHour, o, hourStar))
	// day-of-month and day-of-week are rarely both restricted
	domStar, dowStar := 7, 7
	switch rapid.IntRange(0, 5).Draw(t, "daymode") {
	case 0:
		domStar = 0
	case 1:
		dowStar = 0
	}
	dom := genField(t, fDom, o, domStar)
	month := genField(t, fMonth, o, 7)
	dow := genField(t, fDow, o, dowStar)
	if o.Quartz {
		// quartz requires '?' in neither field here (the library accepts '*'); keep as is
		_ = dow
	}
	fs = append(fs, dom, month, dow)
	if nfields >= 6 {
		fs = append(fs, genField(t, fYear, cronGenOpts{}, 7))
	}
	return strings.Join(fs, " ")
}

// hostile cron strings used as mutation seeds (C17) and fuzz corpus.
var hostileCron = []string{
	"", " ", "* * * *", "* * * * * * * *", "60 * * * *", "* 24 * * *", "* * 32 * *", "* * * 13 *", "* * * * 8",
	"*/0 * * * *", "5-1 * * * *", "H H H H H", "H/0 * * * *", "H(5-1) * * * *", "0 0 31 2 *", "0 0 30 2 *", "0 0 29 2 *",
	"0 0 L * *", "0 0 LW * *", "0 0 31W * *", "0 0 * * 5#5", "0 0 * * 7", "0 0 * * 0L", "0 0 * * 6L", "@daily", "@every 5m", "@reboot",
	"0 0 1 1 * 1969", "0 0 1 1 * 2100", "0 0 1 1 * 2099", "* * * * * *", "*/5 * * * * * *", "0 0 ? * *", "0 0 * * ?", "? ? ? ? ?",
	"1,2,,3 * * * *", "1- * * * *", "-1 * * * *", "*/ * * * *", "a b c d e", "0 0 * JAN-DEC MON-SUN", "0 0 * jan mon", "0 0 * FEB-JAN *",
	"0 0 * * SAT-SUN", "0 0 * * 6-0", "0 0 * * 6-7", "0 0 1W * *", "0 0 W * *", "0 0 L-3 * *", "0 0 32W * *", "0 0 0 * *", "0 0 * 0 *",
	"H H(0-7) * * *", "H/15 * * * *", "H H * * H", "H(0-29)/10 * * * *", "0 0 * * 1#0", "0 0 * * 1#6", "99999999999999999999 * * * *",
	"*\t*\t*\t*\t*", "* * * * *\n", "０ ０ * * *", "0 0 1 1 *" + strings.Repeat(" ", 50), strings.Repeat("1,", 500) + "1 * * * *",
}

var tzNames = []string{"", "UTC", "GMT", "Local", "Asia/Singapore", "America/New_York", "Europe/London", "Australia/Lord_Howe", "Asia/Kolkata",
	"America/Sao_Paulo", "Pacific/Apia", "Asia/Kathmandu", "UTC+8", "UTC-7", "GMT+8", "GMT-7", "UTC+08:00", "UTC-0330", "UTC+05:30", "UTC+5:30", "UTC+14", "UTC-12"}

var hostileTZ = []string{"utc", "Asia/Nowhere", "UTC+", "UTC+25", "UTC+8:0", "UTC+08:60", "+08:00", "GMT+08:00:00", "UTC 8", "EST", "PST", "CST", "Z",
	"../etc/passwd", "Asia/Singapore ", " UTC", "UTC+123", "UTC-99:99", "UTC+1:5", "GMT0", "Etc/GMT+5", "posixrules", "US/Pacific", "localtime", "UTC+24:00", "UTC+23:59"}

func max(a, b int) int {
	if a > b {
		return a
	}
	return b
}
