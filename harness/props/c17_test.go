package props

import (
	"context"
	"encoding/json"
	"fmt"
	"strings"
	"testing"
	"time"

	admissionv1 "k8s.io/api/admission/v1"
	corev1 "k8s.io/api/core/v1"
	apiequality "k8s.io/apimachinery/pkg/api/equality"
	metav1 "k8s.io/apimachinery/pkg/apis/meta/v1"
	"k8s.io/apimachinery/pkg/runtime"
	"k8s.io/apimachinery/pkg/util/validation/field"
	fakeclock "k8s.io/utils/clock/testing"
	"k8s.io/utils/pointer"
	"pgregory.net/rapid"

	configv1alpha1 "github.com/furiko-io/furiko/apis/config/v1alpha1"
	execution "github.com/furiko-io/furiko/apis/execution/v1alpha1"
	"github.com/furiko-io/furiko/pkg/execution/mutation"
	"github.com/furiko-io/furiko/pkg/execution/taskexecutor/podtaskexecutor"
	"github.com/furiko-io/furiko/pkg/execution/tasks"
	"github.com/furiko-io/furiko/pkg/execution/util/cronschedule"
	"github.com/furiko-io/furiko/pkg/execution/util/jobconfig"
	"github.com/furiko-io/furiko/pkg/execution/util/parallel"
	"github.com/furiko-io/furiko/pkg/execution/validation"
	"github.com/furiko-io/furiko/pkg/execution/webhooks/jobvalidatingwebhook"

	"verif/harness/pbt"
)

type CronCfg struct {
	Format      string `json:"format,omitempty"`
	HashNames   *bool  `json:"hashNames,omitempty"`
	HashSeconds *bool  `json:"hashSeconds,omitempty"`
	HashFields  *bool  `json:"hashFields,omitempty"`
	DefaultTZ   string `json:"defaultTZ,omitempty"`
}

func (c CronCfg) typed() *configv1alpha1.CronExecutionConfig {
	cfg := &configv1alpha1.CronExecutionConfig{CronFormat: c.Format, CronHashNames: c.HashNames, CronHashSecondsByDefault: c.HashSeconds, CronHashFields: c.HashFields}
	if c.DefaultTZ != "" {
		cfg.DefaultTimezone = pointer.String(c.DefaultTZ)
	}
	return cfg
}

func optBool(t *rapid.T, label string) *bool {
	switch rapid.IntRange(0, 2).Draw(t, label) {
	case 0:
		return pointer.Bool(true)
	case 1:
		return pointer.Bool(false)
	}
	return nil
}

func genCronCfg(t *rapid.T) CronCfg {
	return CronCfg{
		Format:      rapid.SampledFrom([]string{"", "standard", "quartz"}).Draw(t, "cronFormat"),
		HashNames:   optBool(t, "hashNames"),
		HashSeconds: optBool(t, "hashSeconds"),
		HashFields:  optBool(t, "hashFields"),
		DefaultTZ:   rapid.SampledFrom([]string{"", "UTC", "Asia/Singapore", "America/New_York", "UTC+8"}).Draw(t, "defaultTZ"),
	}
}

// mutateCronString applies small edits to a valid expression.
func mutateCronString(t *rapid.T, s string) string {
	fields := strings.Fields(s)
	switch rapid.IntRange(0, 8).Draw(t, "cronmut") {
	case 0:
		if len(fields) > 1 {
			i := rapid.IntRange(0, len(fields)-1).Draw(t, "dropf")
			fields = append(fields[:i], fields[i+1:]...)
		}
	case 1:
		fields = append(fields, rapid.SampledFrom([]string{"*", "2030", "H", "?"}).Draw(t, "extraf"))
	case 2:
		i := rapid.IntRange(0, len(fields)-1).Draw(t, "replf")
		fields[i] = rapid.SampledFrom([]string{"H", "H/3", "H(1-5)", "L", "LW", "15W", "5#3", "?", "99", "*/0", "0-0", "1-", "a", "JAN", "SUN", "7", "0", "5L", "H(0-0)", "H(60-70)", "H/100", "2,H"}).Draw(t, "replv")
	case 3:
		i := rapid.IntRange(0, len(fields)-1).Draw(t, "swapf")
		j := rapid.IntRange(0, len(fields)-1).Draw(t, "swapg")
		fields[i], fields[j] = fields[j], fields[i]
	case 4:
		return strings.ToLower(s)
	case 5:
		return "  " + strings.Join(fields, "   ") + " "
	case 6:
		return strings.Join(fields, "\t")
	case 7:
		return s + rapid.SampledFrom([]string{",", "-", "/", "#", "W", "L"}).Draw(t, "suffix")
	}
	return strings.Join(fields, " ")
}

func genCronAny(t *rapid.T, quartz bool) string {
	switch rapid.IntRange(0, 15).Draw(t, "cronsrc") {
	case 0:
		return rapid.SampledFrom(hostileCron).Draw(t, "hostile")
	case 1, 2:
		o := cronGenOpts{AllowHash: true, AllowSpecial: true, Quartz: quartz}
		return mutateCronString(t, genCronExpr(t, rapid.SampledFrom([]int{5, 6, 7}).Draw(t, "nf"), o))
	case 3:
		return rapid.StringMatching(`[0-9*/,HLW#? -]{0,24}`).Draw(t, "noise")
	}
	o := cronGenOpts{AllowHash: rapid.Bool().Draw(t, "hash"), AllowSpecial: rapid.Bool().Draw(t, "special"), Quartz: quartz}
	return genCronExpr(t, rapid.SampledFrom([]int{5, 5, 6, 7}).Draw(t, "nf"), o)
}

func genCronScheduleAny(quartz bool) func(t *rapid.T) *execution.CronSchedule {
	return func(t *rapid.T) *execution.CronSchedule {
		cs := &execution.CronSchedule{}
		switch rapid.IntRange(0, 11).Draw(t, "tzsrc") {
		case 0:
			cs.Timezone = rapid.SampledFrom(hostileTZ).Draw(t, "htz")
		case 1:
			cs.Timezone = rapid.StringMatching(`(UTC|GMT)[+-][0-9]{1,2}(:?[0-9]{1,2})?`).Draw(t, "offtz")
		default:
			cs.Timezone = rapid.SampledFrom(tzNames).Draw(t, "tz")
		}
		switch rapid.IntRange(0, 11).Draw(t, "exprmode") {
		case 0, 1, 3:
			n := rapid.IntRange(1, 3).Draw(t, "nexprs")
			if rapid.IntRange(0, 9).Draw(t, "noexprs") == 0 {
				n = 0
			}
			for i := 0; i < n; i++ {
				cs.Expressions = append(cs.Expressions, genCronAny(t, quartz))
			}
		case 2:
			cs.Expression = genCronAny(t, quartz)
			cs.Expressions = []string{genCronAny(t, quartz)}
		default:
			cs.Expression = genCronAny(t, quartz)
		}
		return cs
	}
}

type AcceptCase struct {
	JC   *execution.JobConfig `json:"jc"`
	Cron CronCfg              `json:"cron"`
	Cfg  AdmCfg               `json:"cfg"`
}

func installValidationClock() {
	validation.Clock = fakeclock.NewFakeClock(baseTime)
	mutation.Clock = fakeclock.NewFakeClock(baseTime)
}

// TestC17_accepted: whatever JobConfig admission accepts, the cron scheduler
// can load and bump it, and the Job instantiated from it passes Job admission
// and can be turned into Pods.
func TestC17_accepted(t *testing.T) {
	pbt.Check(t, pbt.Opts{ID: "C17", Name: "accepted", Checks: 5000, ThoroughMul: 20,
		Rule: "random JobConfig (cron strings from the grammar, mutated grammar strings, hostile constants and noise; time zones incl. malformed; options valid and invalid; parallelism; numeric bounds; long names) under a random cron configuration (format, hash flags, default zone), run through the mutating webhook logic and Validator; non-trivial = accepted by validation with a cron schedule; distinct = distinct case"},
		func(t *rapid.T) AcceptCase {
			cc := genCronCfg(t)
			name := rapid.OneOf(rapid.StringMatching(`[a-z]([a-z0-9-]{0,10}[a-z0-9])?`), rapid.StringMatching(`[a-z][a-z0-9.-]{40,52}[a-z0-9]`),
				rapid.SampledFrom([]string{"a", "a.b", "a-1", "x.1650000000"})).Draw(t, "jcname")
			jc := genJobConfig(t, jcGenOpts{Name: name, ValidOpts: rapid.IntRange(0, 9).Draw(t, "validopts") != 0, WithCron: 2, CronGen: genCronScheduleAny(cc.Format == "quartz")})
			switch rapid.IntRange(0, 24).Draw(t, "bounds") {
			case 0:
				jc.Spec.Template.Spec.MaxAttempts = pointer.Int64(rapid.SampledFrom([]int64{0, -1, 50, 51}).Draw(t, "ma"))
			case 1:
				jc.Spec.Template.Spec.RetryDelaySeconds = pointer.Int64(-5)
			case 2:
				jc.Spec.Concurrency.MaxConcurrency = pointer.Int64(rapid.SampledFrom([]int64{0, -1, 1, 100}).Draw(t, "mc"))
			case 3:
				jc.Spec.Template.Spec.Parallelism = &execution.ParallelismSpec{WithCount: pointer.Int64(rapid.SampledFrom([]int64{0, -3, 1, 7, 70}).Draw(t, "wc")), CompletionStrategy: "AllSuccessful"}
			case 4:
				jc.Spec.Template.Spec.TaskTemplate.Pod = nil
			case 5:
				jc.Spec.Template.Spec.TaskTemplate.Pod.Spec.RestartPolicy = corev1.RestartPolicyAlways
			}
			return AcceptCase{JC: jc, Cron: cc, Cfg: genAdmCfg(t)}
		}, runAcceptCase)
}

func runAcceptCase(c AcceptCase) pbt.Result {
	installValidationClock()
	res := pbt.Result{}
	ctx := newMockCtx()
	c.Cfg.apply(ctx)
	ctx.MockConfigs().SetConfigs(map[configv1alpha1.ConfigName]runtime.Object{configv1alpha1.CronExecutionConfigName: c.Cron.typed()})

	jc := c.JC.DeepCopy()
	if r := mutation.NewJobConfigPatcher(ctx).Patch(admissionv1.Create, nil, jc); len(r.Errors) > 0 {
		res.Labels = []string{"rejected-by-mutation"}
		return res
	}
	v := validation.NewValidator(ctx)
	// A panic inside validation (observed: "H(1-7)" in the weekday field makes the
	// cron library divide by zero) fails the admission request: the object is not
	// accepted, so C17's implication says nothing about it. It is counted, not
	// reported; panics in the stages *after* acceptance stay violations.
	var errs field.ErrorList
	panicked := func() (p bool) {
		defer func() {
			if r := recover(); r != nil {
				p = true
			}
		}()
		errs = v.ValidateJobConfig(jc)
		errs = append(errs, v.ValidateJobConfigCreate(jc)...)
		return false
	}()
	if panicked {
		res.Labels = []string{"validation-panicked"}
		return res
	}
	if len(errs) > 0 {
		res.Labels = []string{"rejected"}
		return res
	}
	res.Labels = []string{"accepted", "format:" + c.Cron.Format}
	res.NonTrivial = true
	exprs := jc.Spec.Schedule.Cron.GetExpressions()
	for _, e := range exprs {
		if strings.Contains(e, "H") {
			res.Labels = append(res.Labels, "hashed")
			break
		}
	}
	if len(exprs) > 1 {
		res.Labels = append(res.Labels, "multi-expression")
	}

	// (a) the scheduler loads it - together with others, under any name
	clk := fakeclock.NewFakeClock(baseTime)
	other := &execution.JobConfig{ObjectMeta: metav1.ObjectMeta{Name: "other", Namespace: "ns"}, Spec: execution.JobConfigSpec{
		Schedule: &execution.ScheduleSpec{Cron: &execution.CronSchedule{Expression: "*/5 * * * *"}}}}
	for _, name := range []string{jc.Name, "x", "another-name-for-the-same-schedule"} {
		cp := jc.DeepCopy()
		cp.Name = name
		// every object goes through admission under its own name (hashed fields depend on it)
		if errs := append(v.ValidateJobConfig(cp), v.ValidateJobConfigCreate(cp)...); len(errs) > 0 {
			res.Labels = append(res.Labels, "rejected-under-other-name")
			continue
		}
		for _, disabled := range []bool{false, true} {
			cp2 := cp.DeepCopy()
			cp2.Spec.Schedule.Disabled = disabled
			sched, err := cronschedule.New([]*execution.JobConfig{other, cp2}, cronschedule.WithClock(clk), cronschedule.WithConfigLoader(ctx.Configs()))
			if err != nil {
				res.Violation = pbt.V("C17", "accepted/scheduler-load", "accepted JobConfig (as %q) cannot be loaded by the cron scheduler, which aborts the load for every JobConfig: %v", name, err)
				return res
			}
			// (b) bump at several instants
			for _, from := range []time.Time{baseTime, baseTime.Add(36 * time.Hour), time.Date(2024, 2, 29, 23, 59, 59, 0, time.UTC), time.Date(2031, 12, 31, 23, 59, 59, 5e8, time.UTC)} {
				next, err := sched.Bump(cp2, from)
				if err != nil {
					res.Violation = pbt.V("C17", "accepted/scheduler-bump", "Bump(%v) on an accepted JobConfig fails: %v", from, err)
					return res
				}
				if !next.IsZero() && !next.After(from) {
					res.Violation = pbt.V("C17", "accepted/scheduler-bump-order", "Bump(%v) returned %v which is not later", from, next)
					return res
				}
			}
		}
	}

	// (c) instantiate a Job, give values to required options, admit it
	if err := ctx.Informers().Furiko().Execution().V1alpha1().JobConfigs().Informer().GetIndexer().Add(jc); err != nil {
		panic(err)
	}
	for _, typ := range []execution.JobType{execution.JobTypeScheduled, execution.JobTypeAdhoc} {
		job, err := jobconfig.NewJobFromJobConfig(jc, typ, baseTime)
		if err != nil {
			res.Violation = pbt.V("C17", "accepted/instantiate", "NewJobFromJobConfig on an accepted JobConfig: %v", err)
			return res
		}
		job.Spec.StartPolicy = &execution.StartPolicySpec{ConcurrencyPolicy: jc.Spec.Concurrency.Policy}
		if vals := requiredValues(jc.Spec.Option); len(vals) > 0 {
			job.Spec.OptionValues = encodeValues(vals, false)
			res.Labels = append(res.Labels, "required-options")
		}
		if r := mutation.NewJobPatcher(ctx).Patch(admissionv1.Create, nil, job); len(r.Errors) > 0 {
			res.Violation = pbt.V("C17", "accepted/job-defaulting", "Job instantiated from an accepted JobConfig is refused by defaulting: %v", r.Errors)
			return res
		}
		jerrs := v.ValidateJob(job)
		jerrs = append(jerrs, v.ValidateJobCreate(job)...)
		if len(jerrs) > 0 {
			res.Violation = pbt.V("C17", "accepted/job-validation", "Job instantiated from an accepted JobConfig is refused by Job validation: %v", jerrs)
			return res
		}
		// (d) task objects for every index
		job.UID = "job-uid"
		tmpl := &corev1.PodTemplateSpec{ObjectMeta: job.Spec.Template.TaskTemplate.Pod.ObjectMeta, Spec: job.Spec.Template.TaskTemplate.Pod.Spec}
		for _, ix := range parallel.GenerateIndexes(job.Spec.Template.Parallelism) {
			pod, err := podtaskexecutor.NewPod(job, tmpl, tasks.TaskIndex{Parallel: ix})
			if err != nil {
				res.Violation = pbt.V("C17", "accepted/newpod", "NewPod for index %s: %v", idxString(ix), err)
				return res
			}
			_ = pod
		}
	}
	return res
}

// requiredValues returns a valid value for every required option.
func requiredValues(spec *execution.OptionSpec) map[string]interface{} {
	out := map[string]interface{}{}
	if spec == nil {
		return out
	}
	for _, o := range spec.Options {
		if !o.Required {
			continue
		}
		switch o.Type {
		case execution.OptionTypeString:
			out[o.Name] = "value"
		case execution.OptionTypeSelect:
			out[o.Name] = o.Select.Values[0]
		case execution.OptionTypeMulti:
			out[o.Name] = []interface{}{o.Multi.Values[0]}
		case execution.OptionTypeDate:
			out[o.Name] = dateStrings[0]
		}
	}
	return out
}

// ---------- immutability ----------

type ImmutCase struct {
	JC      *execution.JobConfig `json:"jc,omitempty"`
	Job     *execution.Job       `json:"job"`
	Edits   []string             `json:"edits"`
	Started bool                 `json:"started"`
	KillOld string               `json:"killOld"` // none|past|future
}

var immutableEdits = []string{"image", "parallelism", "maxAttempts", "retryDelay", "type", "optionValues", "substitutions", "uidLabel", "podLabels",
	"parallelism:remove", "parallelism:count", "maxAttempts:remove", "retryDelay:remove", "optionValues:clear", "substitutions:clear", "uidLabel:remove", "command"}
var conditionalEdits = []string{"startPolicy", "startAfter", "killChange", "startPolicy:remove", "startAfter:remove",
	"killChange:remove", "killChange:past", "killChange:future", "killChange:same"}
var mutableEdits = []string{"labels", "annotations", "ttl"}

func TestC17_immutable(t *testing.T) {
	pbt.Check(t, pbt.Opts{ID: "C17", Name: "immutable", Checks: 4000, ThoroughMul: 15,
		Rule: "admitted Job (old) and a copy (new) differing in a random subset of fields (immutable: task template, parallelism, attempts, retry delay, type, option values, substitutions, JobConfig UID label; conditional: start policy once started, kill timestamp once passed; mutable: labels, annotations, ttl), sent to the real validating webhook as an update; non-trivial = at least one immutable or conditional edit; distinct = distinct case"},
		func(t *rapid.T) ImmutCase {
			var jc *execution.JobConfig
			if rapid.Bool().Draw(t, "hasJC") {
				jc = genJobConfig(t, jcGenOpts{Name: "jc", ValidOpts: true, WithCron: 0})
			}
			c := ImmutCase{JC: jc, Job: genJobFor(t, jc, 1), Started: rapid.Bool().Draw(t, "started"),
				KillOld: rapid.SampledFrom([]string{"none", "none", "past", "future"}).Draw(t, "killOld")}
			all := append(append(append([]string{}, immutableEdits...), conditionalEdits...), mutableEdits...)
			n := rapid.IntRange(0, 3).Draw(t, "nedits")
			for i := 0; i < n; i++ {
				c.Edits = append(c.Edits, rapid.SampledFrom(all).Draw(t, "edit"))
			}
			return c
		}, runImmutCase)
}

func runImmutCase(c ImmutCase) pbt.Result {
	installValidationClock()
	res := pbt.Result{}
	ctx := newMockCtx()
	if c.JC != nil {
		jc := c.JC.DeepCopy()
		if jc.Spec.Option != nil {
			sp, ok := preparedSpec(jc.Spec.Option)
			if !ok {
				res.Labels = []string{"jc-spec-rejected"}
				return res
			}
			jc.Spec.Option = sp
		}
		_ = ctx.Informers().Furiko().Execution().V1alpha1().JobConfigs().Informer().GetIndexer().Add(jc)
	}
	old := c.Job.DeepCopy()
	old.Spec.KillTimestamp = nil
	if r := mutation.NewJobPatcher(ctx).Patch(admissionv1.Create, nil, old); len(r.Errors) > 0 {
		res.Labels = []string{"old-rejected"}
		return res
	}
	v := validation.NewValidator(ctx)
	if errs := append(v.ValidateJob(old), v.ValidateJobCreate(old)...); len(errs) > 0 {
		res.Labels = []string{"old-invalid"}
		return res
	}
	old.UID = "job-uid"
	if c.Started {
		st := metav1.NewTime(baseTime.Add(-time.Minute))
		old.Status.StartTime = &st
	}
	switch c.KillOld {
	case "past":
		k := metav1.NewTime(baseTime.Add(-10 * time.Second))
		old.Spec.KillTimestamp = &k
	case "future":
		k := metav1.NewTime(baseTime.Add(10 * time.Minute))
		old.Spec.KillTimestamp = &k
	}
	upd := old.DeepCopy()
	mustReject := []string{}
	applied := map[string]bool{}
	for _, e := range c.Edits {
		if applied[e] {
			continue
		}
		applied[e] = true
		switch e {
		case "image":
			upd.Spec.Template.TaskTemplate.Pod.Spec.Containers[0].Image += "-changed"
			mustReject = append(mustReject, e)
		case "podLabels":
			if upd.Spec.Template.TaskTemplate.Pod.Labels == nil {
				upd.Spec.Template.TaskTemplate.Pod.Labels = map[string]string{}
			}
			upd.Spec.Template.TaskTemplate.Pod.Labels["new"] = "label"
			mustReject = append(mustReject, e)
		case "parallelism":
			if upd.Spec.Template.Parallelism == nil {
				upd.Spec.Template.Parallelism = &execution.ParallelismSpec{WithCount: pointer.Int64(2), CompletionStrategy: execution.AllSuccessful}
			} else if upd.Spec.Template.Parallelism.CompletionStrategy == execution.AnySuccessful {
				upd.Spec.Template.Parallelism.CompletionStrategy = execution.AllSuccessful
			} else {
				upd.Spec.Template.Parallelism.CompletionStrategy = execution.AnySuccessful
			}
			mustReject = append(mustReject, e)
		case "maxAttempts":
			if upd.Spec.Template.MaxAttempts == nil {
				upd.Spec.Template.MaxAttempts = pointer.Int64(0)
			}
			upd.Spec.Template.MaxAttempts = pointer.Int64(*upd.Spec.Template.MaxAttempts%50 + 1)
			mustReject = append(mustReject, e)
		case "retryDelay":
			if upd.Spec.Template.RetryDelaySeconds == nil {
				upd.Spec.Template.RetryDelaySeconds = pointer.Int64(7)
			} else {
				upd.Spec.Template.RetryDelaySeconds = pointer.Int64(*upd.Spec.Template.RetryDelaySeconds + 1)
			}
			mustReject = append(mustReject, e)
		case "type":
			if upd.Spec.Type == execution.JobTypeAdhoc {
				upd.Spec.Type = execution.JobTypeScheduled
			} else {
				upd.Spec.Type = execution.JobTypeAdhoc
			}
			mustReject = append(mustReject, e)
		case "optionValues":
			upd.Spec.OptionValues = `{"changed":"yes"}` + upd.Spec.OptionValues
			mustReject = append(mustReject, e)
		case "substitutions":
			upd.Spec.Substitutions = copyMap(upd.Spec.Substitutions)
			if upd.Spec.Substitutions == nil {
				upd.Spec.Substitutions = map[string]string{}
			}
			upd.Spec.Substitutions["custom.new"] = "v"
			mustReject = append(mustReject, e)
		case "uidLabel":
			upd.Labels = copyMap(upd.Labels)
			if upd.Labels == nil {
				upd.Labels = map[string]string{}
			}
			upd.Labels[labelJobConfigUID] = upd.Labels[labelJobConfigUID] + "x"
			mustReject = append(mustReject, e)
		case "startPolicy":
			if upd.Spec.StartPolicy == nil {
				upd.Spec.StartPolicy = &execution.StartPolicySpec{ConcurrencyPolicy: execution.ConcurrencyPolicyAllow}
			} else if upd.Spec.StartPolicy.ConcurrencyPolicy == execution.ConcurrencyPolicyAllow {
				upd.Spec.StartPolicy.ConcurrencyPolicy = execution.ConcurrencyPolicyEnqueue
			} else {
				upd.Spec.StartPolicy.ConcurrencyPolicy = execution.ConcurrencyPolicyAllow
			}
			if c.Started {
				mustReject = append(mustReject, "startPolicy-once-started")
			}
		case "startAfter":
			if upd.Spec.StartPolicy == nil {
				upd.Spec.StartPolicy = &execution.StartPolicySpec{ConcurrencyPolicy: execution.ConcurrencyPolicyAllow}
			}
			sa := metav1.NewTime(baseTime.Add(77 * time.Minute))
			upd.Spec.StartPolicy.StartAfter = &sa
			if c.Started {
				mustReject = append(mustReject, "startAfter-once-started")
			}
		case "killChange", "killChange:remove", "killChange:past", "killChange:future", "killChange:same":
			if applied["kill"] {
				continue
			}
			applied["kill"] = true
			switch e {
			case "killChange":
				k := metav1.NewTime(baseTime.Add(33 * time.Second))
				upd.Spec.KillTimestamp = &k
			case "killChange:remove":
				upd.Spec.KillTimestamp = nil
			case "killChange:past":
				k := metav1.NewTime(baseTime.Add(-time.Hour))
				upd.Spec.KillTimestamp = &k
			case "killChange:future":
				k := metav1.NewTime(baseTime.Add(2 * time.Hour))
				upd.Spec.KillTimestamp = &k
			case "killChange:same": // the same instant, written in another zone
				if old.Spec.KillTimestamp != nil {
					k := metav1.NewTime(old.Spec.KillTimestamp.In(time.FixedZone("x", 3600)))
					upd.Spec.KillTimestamp = &k
				}
			}
			changed := (old.Spec.KillTimestamp == nil) != (upd.Spec.KillTimestamp == nil) ||
				(old.Spec.KillTimestamp != nil && !old.Spec.KillTimestamp.Time.Equal(upd.Spec.KillTimestamp.Time))
			if c.KillOld == "past" && changed {
				mustReject = append(mustReject, "kill-once-passed:"+e)
			}
		case "parallelism:remove":
			if upd.Spec.Template.Parallelism != nil && !applied["parallelism"] {
				upd.Spec.Template.Parallelism = nil
				mustReject = append(mustReject, e)
			}
		case "parallelism:count":
			if pr := upd.Spec.Template.Parallelism; pr != nil && pr.WithCount != nil && !applied["parallelism"] {
				upd.Spec.Template.Parallelism = pr.DeepCopy()
				upd.Spec.Template.Parallelism.WithCount = pointer.Int64(*pr.WithCount + 1)
				mustReject = append(mustReject, e)
			}
		case "maxAttempts:remove":
			if upd.Spec.Template.MaxAttempts != nil && !applied["maxAttempts"] {
				upd.Spec.Template.MaxAttempts = nil
				mustReject = append(mustReject, e)
			}
		case "retryDelay:remove":
			if upd.Spec.Template.RetryDelaySeconds != nil && !applied["retryDelay"] {
				upd.Spec.Template.RetryDelaySeconds = nil
				mustReject = append(mustReject, e)
			}
		case "optionValues:clear":
			if upd.Spec.OptionValues != "" && !applied["optionValues"] {
				upd.Spec.OptionValues = ""
				mustReject = append(mustReject, e)
			}
		case "substitutions:clear":
			if len(upd.Spec.Substitutions) > 0 && !applied["substitutions"] {
				upd.Spec.Substitutions = nil
				mustReject = append(mustReject, e)
			}
		case "uidLabel:remove":
			if _, ok := upd.Labels[labelJobConfigUID]; ok && !applied["uidLabel"] {
				upd.Labels = copyMap(upd.Labels)
				delete(upd.Labels, labelJobConfigUID)
				mustReject = append(mustReject, e)
			}
		case "command":
			upd.Spec.Template.TaskTemplate.Pod.Spec.Containers[0].Command = append(append([]string{}, upd.Spec.Template.TaskTemplate.Pod.Spec.Containers[0].Command...), "extra")
			mustReject = append(mustReject, e)
		case "startPolicy:remove":
			if upd.Spec.StartPolicy != nil && !applied["startPolicy"] && !applied["startAfter"] {
				upd.Spec.StartPolicy = nil
				if c.Started {
					mustReject = append(mustReject, "startPolicy-once-started:remove")
				}
			}
		case "startAfter:remove":
			if upd.Spec.StartPolicy != nil && upd.Spec.StartPolicy.StartAfter != nil && !applied["startAfter"] {
				upd.Spec.StartPolicy = upd.Spec.StartPolicy.DeepCopy()
				upd.Spec.StartPolicy.StartAfter = nil
				if c.Started {
					mustReject = append(mustReject, "startAfter-once-started:remove")
				}
			}
		case "labels":
			upd.Labels = copyMap(upd.Labels)
			if upd.Labels == nil {
				upd.Labels = map[string]string{}
			}
			upd.Labels["free"] = "label"
		case "annotations":
			upd.Annotations = copyMap(upd.Annotations)
			if upd.Annotations == nil {
				upd.Annotations = map[string]string{}
			}
			upd.Annotations["free"] = "anno"
		case "ttl":
			upd.Spec.TTLSecondsAfterFinished = pointer.Int64(12345)
		}
	}
	// The oracle does not trust the bookkeeping of the edits above (two edits of one
	// field may cancel out): what must be rejected is decided by comparing old and new.
	editTags := mustReject
	mustReject = nil
	differs := func(tag string, a, b interface{}) {
		if !apiequality.Semantic.DeepEqual(a, b) {
			mustReject = append(mustReject, tag)
		}
	}
	differs("taskTemplate", old.Spec.Template.TaskTemplate, upd.Spec.Template.TaskTemplate)
	differs("parallelism", old.Spec.Template.Parallelism, upd.Spec.Template.Parallelism)
	differs("maxAttempts", old.Spec.Template.MaxAttempts, upd.Spec.Template.MaxAttempts)
	differs("retryDelay", old.Spec.Template.RetryDelaySeconds, upd.Spec.Template.RetryDelaySeconds)
	differs("type", old.Spec.Type, upd.Spec.Type)
	differs("optionValues", old.Spec.OptionValues, upd.Spec.OptionValues)
	differs("substitutions", old.Spec.Substitutions, upd.Spec.Substitutions)
	differs("uidLabel", old.Labels[labelJobConfigUID], upd.Labels[labelJobConfigUID])
	if c.Started {
		differs("startPolicy-once-started", old.Spec.StartPolicy, upd.Spec.StartPolicy)
	}
	if c.KillOld == "past" {
		ok, nk := old.Spec.KillTimestamp, upd.Spec.KillTimestamp
		if (nk == nil) || !ok.Time.Equal(nk.Time) {
			mustReject = append(mustReject, "kill-once-passed")
		}
	}
	hook, err := jobvalidatingwebhook.NewWebhook(ctx)
	if err != nil {
		panic(err)
	}
	oldRaw, _ := json.Marshal(old)
	newRaw, _ := json.Marshal(upd)
	resp, err := hook.Handle(context.Background(), &admissionv1.AdmissionRequest{Kind: gvkJob, Operation: admissionv1.Update,
		Object: runtime.RawExtension{Raw: newRaw}, OldObject: runtime.RawExtension{Raw: oldRaw}})
	if err != nil {
		res.Violation = pbt.V("C17", "immutable/handle-error", "validating webhook returned an error: %v", err)
		return res
	}
	for _, e := range editTags {
		res.Labels = append(res.Labels, "edit:"+e)
	}
	for _, e := range mustReject {
		res.Labels = append(res.Labels, "differs:"+e)
	}
	if c.Started {
		res.Labels = append(res.Labels, "started")
	}
	res.NonTrivial = len(mustReject) > 0
	if len(mustReject) > 0 && resp.Allowed {
		res.Violation = pbt.V("C17", "immutable/accepted:"+mustReject[0], "update changing immutable field(s) %v was accepted", mustReject)
		return res
	}
	if len(mustReject) == 0 {
		res.Labels = append(res.Labels, "only-mutable-edits")
		if !resp.Allowed {
			res.Violation = pbt.V("C17", "immutable/rejected-mutable", "update touching only mutable fields %v (started=%v, killOld=%s) was rejected: %v", c.Edits, c.Started, c.KillOld, fmt.Sprint(resp.Result))
		}
	}
	return res
}
