package props

import (
	"fmt"
	"time"

	corev1 "k8s.io/api/core/v1"
	metav1 "k8s.io/apimachinery/pkg/apis/meta/v1"
	"k8s.io/apimachinery/pkg/types"
	"k8s.io/utils/pointer"
	"pgregory.net/rapid"

	execution "github.com/furiko-io/furiko/apis/execution/v1alpha1"
)

// baseTime is the simulated "now" of the pure (E3) checks.
var baseTime = time.Date(2022, 3, 4, 5, 6, 7, 0, time.UTC)

func optInt64(t *rapid.T, label string, vals ...int64) *int64 {
	if rapid.Bool().Draw(t, label+"?") {
		return pointer.Int64(rapid.SampledFrom(vals).Draw(t, label))
	}
	return nil
}

func genSmallPar(t *rapid.T) *execution.ParallelismSpec {
	switch rapid.SampledFrom([]string{"nil", "nil", "count", "keys", "matrix"}).Draw(t, "par") {
	case "count":
		return &execution.ParallelismSpec{WithCount: pointer.Int64(int64(rapid.IntRange(1, 4).Draw(t, "cnt"))), CompletionStrategy: genStrategy(t)}
	case "keys":
		return &execution.ParallelismSpec{WithKeys: []string{"ka", "kb", "kc"}[:rapid.IntRange(1, 3).Draw(t, "nk")], CompletionStrategy: genStrategy(t)}
	case "matrix":
		arch := []string{"arm", "x86"}[:rapid.IntRange(1, 2).Draw(t, "na")]
		return &execution.ParallelismSpec{WithMatrix: map[string][]string{"os": {"linux", "mac"}, "arch": arch}, CompletionStrategy: genStrategy(t)}
	}
	return nil
}

func genStrategy(t *rapid.T) execution.ParallelCompletionStrategy {
	return rapid.SampledFrom([]execution.ParallelCompletionStrategy{"", execution.AllSuccessful, execution.AnySuccessful}).Draw(t, "strategy")
}

func genPodTemplate(t *rapid.T, withVars []string) *execution.PodTemplateSpec {
	args := []string{"run"}
	for _, v := range withVars {
		args = append(args, "${"+v+"}")
	}
	p := &execution.PodTemplateSpec{Spec: corev1.PodSpec{Containers: []corev1.Container{{
		Name: "main", Image: rapid.SampledFrom([]string{"alpine", "busybox:1.0", "repo/img:${option.image.tag}"}).Draw(t, "image"),
		Args: args,
		Env:  []corev1.EnvVar{{Name: "JOB", Value: "${job.name}"}},
	}}}}
	// arrays of different lengths on the two sides of a patch (several element
	// removals / additions in one array shift each other's indexes)
	for i, n := 0, rapid.SampledFrom([]int{0, 0, 0, 1, 2, 3}).Draw(t, "extraEnv"); i < n; i++ {
		p.Spec.Containers[0].Env = append(p.Spec.Containers[0].Env, corev1.EnvVar{Name: fmt.Sprintf("E%d", i), Value: fmt.Sprintf("v%d", i)})
	}
	for i, n := 0, rapid.SampledFrom([]int{0, 0, 0, 1, 2}).Draw(t, "extraContainers"); i < n; i++ {
		p.Spec.Containers = append(p.Spec.Containers, corev1.Container{Name: fmt.Sprintf("side-%d", i), Image: "busybox:1.0", Args: []string{"sleep", fmt.Sprint(i)}})
	}
	switch rapid.IntRange(0, 3).Draw(t, "rp") {
	case 0:
		p.Spec.RestartPolicy = corev1.RestartPolicyNever
	case 1:
		p.Spec.RestartPolicy = corev1.RestartPolicyOnFailure
	}
	if rapid.IntRange(0, 3).Draw(t, "podmeta") == 0 {
		p.Labels = map[string]string{"app": "x"}
		p.Annotations = map[string]string{"note": "y"}
	}
	return p
}

func genJobTemplate(t *rapid.T, withVars []string) execution.JobTemplate {
	jt := execution.JobTemplate{
		TaskTemplate:              execution.TaskTemplate{Pod: genPodTemplate(t, withVars)},
		Parallelism:               genSmallPar(t),
		MaxAttempts:               optInt64(t, "maxAttempts", 1, 2, 3, 5, 50),
		RetryDelaySeconds:         optInt64(t, "retryDelay", 0, 1, 30, 600),
		TaskPendingTimeoutSeconds: optInt64(t, "pendingTimeout", 0, 60, 900),
		ForbidTaskForceDeletion:   rapid.IntRange(0, 4).Draw(t, "forbidForce") == 0,
	}
	return jt
}

type jcGenOpts struct {
	Name       string
	WithCron   int // 0 never, 1 maybe, 2 always
	ValidOpts  bool
	CronGen    func(t *rapid.T) *execution.CronSchedule
	MaxOptions int
}

func genCronScheduleSimple(t *rapid.T) *execution.CronSchedule {
	cs := &execution.CronSchedule{Timezone: rapid.SampledFrom(tzNames).Draw(t, "tz")}
	o := cronGenOpts{AllowHash: rapid.Bool().Draw(t, "hash"), AllowSpecial: rapid.Bool().Draw(t, "special")}
	n := rapid.SampledFrom([]int{5, 5, 6, 7}).Draw(t, "nfields")
	if rapid.IntRange(0, 2).Draw(t, "multi") == 0 {
		k := rapid.IntRange(1, 3).Draw(t, "nexpr")
		for i := 0; i < k; i++ {
			cs.Expressions = append(cs.Expressions, genCronExpr(t, n, o))
		}
	} else {
		cs.Expression = genCronExpr(t, n, o)
	}
	return cs
}

func genTimeAround(t *rapid.T, label string) *metav1.Time {
	d := rapid.SampledFrom([]time.Duration{-48 * time.Hour, -time.Hour, -time.Minute, -time.Second, 0, time.Second, time.Minute, time.Hour, 48 * time.Hour}).Draw(t, label)
	mt := metav1.NewTime(baseTime.Add(d))
	return &mt
}

func genJobConfig(t *rapid.T, o jcGenOpts) *execution.JobConfig {
	name := o.Name
	if name == "" {
		name = rapid.StringMatching(`[a-z]([a-z0-9-]{0,10}[a-z0-9])?`).Draw(t, "jcname")
	}
	maxOpts := o.MaxOptions
	if maxOpts == 0 {
		maxOpts = 4
	}
	spec := genOptionSpec(t, maxOpts, o.ValidOpts, false)
	var vars []string
	if spec != nil {
		for _, op := range spec.Options {
			vars = append(vars, "option."+op.Name)
		}
	}
	jc := &execution.JobConfig{
		TypeMeta:   metav1.TypeMeta{APIVersion: "execution.furiko.io/v1alpha1", Kind: "JobConfig"},
		ObjectMeta: metav1.ObjectMeta{Name: name, Namespace: "ns", UID: types.UID("uid-" + name)},
		Spec: execution.JobConfigSpec{
			Template: execution.JobTemplateSpec{Spec: genJobTemplate(t, vars)},
			Concurrency: execution.ConcurrencySpec{
				Policy: rapid.SampledFrom([]execution.ConcurrencyPolicy{execution.ConcurrencyPolicyAllow, execution.ConcurrencyPolicyForbid, execution.ConcurrencyPolicyEnqueue}).Draw(t, "policy"),
			},
			Option: spec,
		},
	}
	if jc.Spec.Concurrency.Policy != execution.ConcurrencyPolicyAllow {
		jc.Spec.Concurrency.MaxConcurrency = optInt64(t, "maxConcurrency", 1, 2, 3)
	}
	if rapid.IntRange(0, 2).Draw(t, "tmplmeta") == 0 {
		jc.Spec.Template.Labels = map[string]string{"team": "a", "shared": "from-template"}
		jc.Spec.Template.Annotations = map[string]string{"anno": "b", "shared": "from-template"}
	}
	withCron := o.WithCron == 2 || (o.WithCron == 1 && rapid.Bool().Draw(t, "hasSchedule"))
	if withCron {
		gen := o.CronGen
		if gen == nil {
			gen = genCronScheduleSimple
		}
		jc.Spec.Schedule = &execution.ScheduleSpec{Cron: gen(t), Disabled: rapid.IntRange(0, 3).Draw(t, "disabled") == 0}
		if rapid.IntRange(0, 2).Draw(t, "constraints") == 0 {
			jc.Spec.Schedule.Constraints = &execution.ScheduleContraints{}
			if rapid.Bool().Draw(t, "nbf?") {
				jc.Spec.Schedule.Constraints.NotBefore = genTimeAround(t, "nbf")
			}
			if rapid.Bool().Draw(t, "naf?") {
				jc.Spec.Schedule.Constraints.NotAfter = genTimeAround(t, "naf")
			}
		}
		if rapid.IntRange(0, 2).Draw(t, "lastUpdated?") == 0 {
			jc.Spec.Schedule.LastUpdated = genTimeAround(t, "lastUpdated")
		}
	}
	return jc
}

// genJobFor draws a Job that may reference jc by configName (or carry its own
// template), with every optional field independently present or absent.
func genJobFor(t *rapid.T, jc *execution.JobConfig, idx int) *execution.Job {
	j := &execution.Job{
		TypeMeta:   metav1.TypeMeta{APIVersion: "execution.furiko.io/v1alpha1", Kind: "Job"},
		ObjectMeta: metav1.ObjectMeta{Name: fmt.Sprintf("job-%d", idx), Namespace: "ns"},
	}
	if rapid.IntRange(0, 2).Draw(t, "joblabels") == 0 {
		j.Labels = map[string]string{"mine": "1", "shared": "from-job"}
		j.Annotations = map[string]string{"shared": "from-job"}
	}
	mode := rapid.SampledFrom([]string{"config", "config", "config", "template", "both", "neither"}).Draw(t, "jobmode")
	if jc == nil && (mode == "config" || mode == "both") {
		mode = "template"
	}
	if mode == "config" || mode == "both" {
		j.Spec.ConfigName = jc.Name
		if jc.Spec.Option != nil && rapid.IntRange(0, 3).Draw(t, "ov?") != 0 {
			vals := genOptionValues(t, jc.Spec.Option, false)
			if len(vals) > 0 {
				j.Spec.OptionValues = encodeValues(vals, rapid.Bool().Draw(t, "ovyaml"))
			}
		}
	}
	if mode == "template" || mode == "both" {
		jt := genJobTemplate(t, nil)
		j.Spec.Template = &jt
	}
	if rapid.IntRange(0, 3).Draw(t, "type?") != 0 {
		j.Spec.Type = rapid.SampledFrom([]execution.JobType{execution.JobTypeAdhoc, execution.JobTypeScheduled}).Draw(t, "type")
	}
	if rapid.IntRange(0, 2).Draw(t, "startPolicy?") != 0 {
		j.Spec.StartPolicy = &execution.StartPolicySpec{
			ConcurrencyPolicy: rapid.SampledFrom([]execution.ConcurrencyPolicy{"", execution.ConcurrencyPolicyAllow, execution.ConcurrencyPolicyForbid, execution.ConcurrencyPolicyEnqueue}).Draw(t, "jobpolicy"),
		}
		if rapid.Bool().Draw(t, "startAfter?") {
			j.Spec.StartPolicy.StartAfter = genTimeAround(t, "startAfter")
		}
	}
	if rapid.IntRange(0, 2).Draw(t, "subs?") == 0 {
		j.Spec.Substitutions = map[string]string{"custom.x": "cx"}
		if jc != nil && jc.Spec.Option != nil && len(jc.Spec.Option.Options) > 0 && rapid.Bool().Draw(t, "shadowopt") {
			j.Spec.Substitutions["option."+jc.Spec.Option.Options[0].Name] = "explicit"
		}
		if rapid.Bool().Draw(t, "shadowjc") {
			j.Spec.Substitutions["jobconfig.name"] = "explicit-jc"
		}
	}
	if rapid.IntRange(0, 4).Draw(t, "kill?") == 0 {
		j.Spec.KillTimestamp = genTimeAround(t, "kill")
	}
	j.Spec.TTLSecondsAfterFinished = optInt64(t, "ttl", 0, 60, 3600)
	switch rapid.IntRange(0, 11).Draw(t, "hasfinalizer") {
	case 0, 1:
		j.Finalizers = []string{"example.com/other"}
	case 2:
		j.Finalizers = []string{"example.com/other", deleteDependentsFinalizer}
	case 3:
		j.Finalizers = []string{deleteDependentsFinalizer, "example.com/other"}
	case 4:
		j.Finalizers = []string{"example.com/a", "example.com/b"}
	}
	return j
}
