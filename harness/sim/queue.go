//go:build verif

package sim

import (
	"time"

	"k8s.io/client-go/util/workqueue"
)

// Queue is a deterministic workqueue.RateLimitingInterface: the real
// de-duplication / dirty-while-processing semantics, no timers, no goroutines.
//
//   - Add: ready unless already queued; if the key is being processed it is
//     re-queued when Done is called.
//   - AddRateLimited: counts a requeue and makes the key ready again (back-off
//     delays are not modelled; the harness decides when the next step runs).
//   - AddAfter(d > 0): furiko computes d = time.Until(target), i.e. against the
//     wall clock. The simulated epoch lies in the wall clock's future, so d is
//     never clamped by furiko's 1 s floor and target = wallclock.Now() + d
//     recovers the intended deadline on the simulated time line exactly (up to
//     the microseconds between the two wall-clock reads). The key becomes ready
//     at the first clock advance that reaches its earliest deadline.
type Queue struct {
	Name       string
	ready      []string
	dirty      map[string]bool
	processing map[string]bool
	armed      map[string][]time.Time // key -> deadlines on the simulated time line
	requeues   map[string]int
	shutdown   bool

	// statistics
	Adds, RateLimited, Afters int
}

var _ workqueue.RateLimitingInterface = (*Queue)(nil)

func NewQueue(name string) *Queue {
	return &Queue{Name: name, dirty: map[string]bool{}, processing: map[string]bool{}, armed: map[string][]time.Time{}, requeues: map[string]int{}}
}

func (q *Queue) Add(item interface{}) {
	k := item.(string)
	q.Adds++
	if q.shutdown || q.dirty[k] {
		return
	}
	q.dirty[k] = true
	if q.processing[k] {
		return
	}
	q.ready = append(q.ready, k)
}

func (q *Queue) Len() int { return len(q.ready) }

// Get never blocks: the harness only calls it when Len() > 0; on an empty queue
// it reports shutdown so that a mistaken call cannot deadlock the run.
func (q *Queue) Get() (interface{}, bool) {
	if len(q.ready) == 0 {
		return nil, true
	}
	k := q.ready[0]
	q.ready = q.ready[1:]
	q.processing[k] = true
	delete(q.dirty, k)
	return k, false
}

func (q *Queue) Done(item interface{}) {
	k := item.(string)
	delete(q.processing, k)
	if q.dirty[k] {
		q.ready = append(q.ready, k)
	}
}

func (q *Queue) ShutDown()          { q.shutdown = true }
func (q *Queue) ShutDownWithDrain() { q.shutdown = true }
func (q *Queue) ShuttingDown() bool { return q.shutdown }

func (q *Queue) AddAfter(item interface{}, d time.Duration) {
	q.Afters++
	if d <= 0 {
		q.Add(item)
		return
	}
	k := item.(string)
	q.armed[k] = append(q.armed[k], time.Now().Add(d))
}

func (q *Queue) AddRateLimited(item interface{}) {
	q.RateLimited++
	q.requeues[item.(string)]++
	q.Add(item)
}

func (q *Queue) Forget(item interface{})          { delete(q.requeues, item.(string)) }
func (q *Queue) NumRequeues(item interface{}) int { return q.requeues[item.(string)] }

// releaseSlack absorbs the wall-clock time that passes between furiko's
// time.Until and AddAfter's own clock read.
const releaseSlack = 20 * time.Millisecond

// ReleaseArmed makes ready every key with a deadline at or before now (called
// on clock advance). A key released a few milliseconds early is harmless: a
// correct reconciler re-checks its condition and re-arms.
func (q *Queue) ReleaseArmed(now time.Time) int {
	n := 0
	keys := make([]string, 0, len(q.armed))
	for k := range q.armed {
		keys = append(keys, k)
	}
	sortStrings(keys)
	for _, k := range keys {
		var rest []time.Time
		fire := false
		for _, d := range q.armed[k] {
			if !d.After(now.Add(releaseSlack)) {
				fire = true
			} else {
				rest = append(rest, d)
			}
		}
		if len(rest) == 0 {
			delete(q.armed, k)
		} else {
			q.armed[k] = rest
		}
		if fire {
			q.Add(k)
			n++
		}
	}
	return n
}

// Armed reports whether key has a deferred re-sync pending.
func (q *Queue) Armed(key string) bool { return len(q.armed[key]) > 0 }

// Keys returns the ready keys (copy).
func (q *Queue) Keys() []string { return append([]string(nil), q.ready...) }
