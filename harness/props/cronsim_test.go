package props

import (
	"encoding/json"
	"fmt"
	"sort"
	"strings"
	"testing"
	"time"

	corev1 "k8s.io/api/core/v1"
	metav1 "k8s.io/apimachinery/pkg/apis/meta/v1"
	"k8s.io/apimachinery/pkg/runtime"
	"k8s.io/utils/pointer"
	"pgregory.net/rapid"

	configv1alpha1 "github.com/furiko-io/furiko/apis/config/v1alpha1"
	execution "github.com/furiko-io/furiko/apis/execution/v1alpha1"

	"verif/harness/pbt"
	"verif/harness/sim"
)

// ---------- case ----------

type SchedSpec struct {
	Exprs      []string `json:"exprs,omitempty"`
	TZ         string   `json:"tz,omitempty"`
	Disabled   bool     `json:"disabled,omitempty"`
	NoSchedule bool     `json:"noSchedule,omitempty"`
	NBOff      *int64   `json:"nbOff,omitempty"` // notBefore, seconds relative to case start
	NAOff      *int64   `json:"naOff,omitempty"`
	// LUOff: an explicit spec.schedule.lastUpdated, seconds relative to the case
	// start (admission keeps an explicit value that lies in the future)
	LUOff *int64 `json:"luOff,omitempty"`
}

type CronOp struct {
	Kind  string     `json:"kind"` // tick|create|edit|touch|delete|deliver|restart|setStatus|advance
	AdvMs int64      `json:"advMs,omitempty"`
	JC    int        `json:"jc,omitempty"`
	Sched *SchedSpec `json:"sched,omitempty"`
	N     int        `json:"n,omitempty"`
	LSOff *int64     `json:"lsOff,omitempty"` // setStatus: lastScheduled = now + LSOff seconds
}

type CronCase struct {
	Start int64      `json:"start"`
	Cfg   CronSimCfg `json:"cfg"`
	Names []string   `json:"names"`
	Pre   []CronOp   `json:"pre"`
	Ops   []CronOp   `json:"ops"`
}

// nsName splits a generated name: "other/a" lives in namespace "other", a bare
// name in "ns".
func nsName(n string) (string, string) {
	if i := strings.IndexByte(n, '/'); i >= 0 {
		return n[:i], n[i+1:]
	}
	return "ns", n
}

func jcFromSched(name string, s *SchedSpec, start time.Time) *execution.JobConfig {
	ns, name := nsName(name)
	jc := &execution.JobConfig{
		ObjectMeta: metav1.ObjectMeta{Name: name, Namespace: ns},
		Spec: execution.JobConfigSpec{
			Template: execution.JobTemplateSpec{Spec: execution.JobTemplate{
				TaskTemplate: execution.TaskTemplate{Pod: &execution.PodTemplateSpec{Spec: corev1.PodSpec{Containers: []corev1.Container{{Name: "main", Image: "alpine"}}}}},
			}},
			Concurrency: execution.ConcurrencySpec{Policy: execution.ConcurrencyPolicyAllow},
		},
	}
	applySched(jc, s, start)
	return jc
}

func applySched(jc *execution.JobConfig, s *SchedSpec, start time.Time) {
	if s == nil || s.NoSchedule {
		jc.Spec.Schedule = nil
		return
	}
	old := jc.Spec.Schedule
	jc.Spec.Schedule = &execution.ScheduleSpec{Cron: &execution.CronSchedule{Timezone: s.TZ}, Disabled: s.Disabled}
	if old != nil {
		jc.Spec.Schedule.LastUpdated = old.LastUpdated
	}
	if len(s.Exprs) == 1 {
		jc.Spec.Schedule.Cron.Expression = s.Exprs[0]
	} else {
		jc.Spec.Schedule.Cron.Expressions = append([]string(nil), s.Exprs...)
	}
	if s.LUOff != nil {
		jc.Spec.Schedule.LastUpdated = mt(start.Add(time.Duration(*s.LUOff) * time.Second))
	}
	if s.NBOff != nil || s.NAOff != nil {
		jc.Spec.Schedule.Constraints = &execution.ScheduleContraints{}
		if s.NBOff != nil {
			jc.Spec.Schedule.Constraints.NotBefore = mt(start.Add(time.Duration(*s.NBOff) * time.Second))
		}
		if s.NAOff != nil {
			jc.Spec.Schedule.Constraints.NotAfter = mt(start.Add(time.Duration(*s.NAOff) * time.Second))
		}
	}
}

// ---------- generators ----------

var interestingStarts = []time.Time{
	time.Date(2022, 3, 13, 6, 58, 50, 0, time.UTC),   // New York springs forward at 07:00Z
	time.Date(2022, 11, 6, 5, 58, 50, 0, time.UTC),   // New York falls back at 06:00Z
	time.Date(2022, 3, 27, 0, 58, 50, 0, time.UTC),   // London springs forward at 01:00Z
	time.Date(2022, 10, 30, 0, 58, 50, 0, time.UTC),  // London falls back at 01:00Z
	time.Date(2022, 4, 2, 14, 58, 50, 0, time.UTC),   // Lord Howe falls back (30 min) at 15:00Z
	time.Date(2022, 10, 1, 15, 28, 50, 0, time.UTC),  // Lord Howe springs forward at 15:30Z
	time.Date(2022, 2, 28, 23, 58, 50, 0, time.UTC),  // month end, non-leap
	time.Date(2024, 2, 28, 23, 58, 50, 0, time.UTC),  // 29 Feb ahead
	time.Date(2024, 2, 29, 23, 58, 50, 0, time.UTC),  // leap day end
	time.Date(2021, 12, 31, 23, 58, 50, 0, time.UTC), // year end
	time.Date(2022, 3, 4, 5, 6, 7, 0, time.UTC),
	time.Date(2022, 3, 13, 1, 58, 50, 0, time.UTC), // 02:00 local in several zones around here
	time.Date(2022, 7, 31, 15, 59, 50, 0, time.UTC),
}

func genStart(t *rapid.T) time.Time {
	if rapid.IntRange(0, 2).Draw(t, "startkind") != 0 {
		s := rapid.SampledFrom(interestingStarts).Draw(t, "istart")
		return s.Add(time.Duration(rapid.IntRange(-3, 3).Draw(t, "startshift")) * time.Hour).Add(time.Duration(rapid.IntRange(0, 999).Draw(t, "startms")) * time.Millisecond)
	}
	return time.Unix(rapid.Int64Range(1640995200, 1893455999).Draw(t, "startunix"), 0).Add(time.Duration(rapid.IntRange(0, 999).Draw(t, "startms")) * time.Millisecond)
}

func genSimCfg(t *rapid.T) CronSimCfg {
	c := CronSimCfg{CronCfg: genCronCfg(t)}
	if rapid.IntRange(0, 2).Draw(t, "mm?") != 0 {
		c.MaxMissed = pointer.Int64(rapid.SampledFrom([]int64{0, 1, 2, 3, 5, 8}).Draw(t, "maxMissed"))
	}
	c.MaxDowntime = rapid.SampledFrom([]int64{0, 0, 1, 60, 300, 3600}).Draw(t, "maxDowntime")
	return c
}

var simZones = []string{"", "", "UTC", "GMT", "Asia/Singapore", "America/New_York", "Europe/London", "Australia/Lord_Howe", "Asia/Kolkata", "UTC+8", "UTC-7", "UTC+05:30", "UTC-0330", "GMT+8"}

// genSched draws a schedule whose expressions fire often enough to matter in a
// short run (dense) or only across stalls (sparse).
func genSched(t *rapid.T, cfg CronSimCfg, allowOff bool, denseBias int) *SchedSpec {
	s := &SchedSpec{TZ: rapid.SampledFrom(simZones).Draw(t, "tz")}
	quartz := cfg.Format == "quartz"
	hashOK := pointer.BoolDeref(cfg.HashNames, true) && pointer.BoolDeref(cfg.HashFields, true)
	dense := []string{"* * * * *", "*/2 * * * *", "* * * * * * *", "*/10 * * * * * *", "30 * * * * * *", "0,30 * * * * * *", "* * * * * 2022-2030", "*/7 * * * * * *"}
	if hashOK {
		dense = append(dense, "H/3 * * * *", "H/15 * * * * * *", "H * * * * * *", "H/2 * * * *")
	}
	n := 1
	if rapid.IntRange(0, 2).Draw(t, "multi") == 0 {
		n = rapid.IntRange(2, 3).Draw(t, "nexpr")
	}
	for i := 0; i < n; i++ {
		var e string
		d := rapid.IntRange(0, 9).Draw(t, "density")
		switch {
		case d < denseBias:
			e = rapid.SampledFrom(dense).Draw(t, "dense")
		case d < denseBias+3:
			e = genCronExpr(t, rapid.SampledFrom([]int{5, 6, 7}).Draw(t, "nf"), cronGenOpts{AllowHash: hashOK, AllowSpecial: true, Quartz: quartz})
		default:
			e = genCronExpr(t, rapid.SampledFrom([]int{5, 5, 6, 7}).Draw(t, "nf"), cronGenOpts{AllowHash: hashOK && rapid.Bool().Draw(t, "hash"), AllowSpecial: rapid.Bool().Draw(t, "special"), Quartz: quartz, Sparse: true})
		}
		s.Exprs = append(s.Exprs, e)
	}
	if allowOff && rapid.IntRange(0, 7).Draw(t, "disabled") == 0 {
		s.Disabled = true
	}
	if rapid.IntRange(0, 3).Draw(t, "window") == 0 {
		offs := []int64{-86400, -3600, -60, -1, 0, 1, 30, 60, 61, 120, 600, 3600, 86400}
		if rapid.Bool().Draw(t, "nb?") {
			s.NBOff = pointer.Int64(rapid.SampledFrom(offs).Draw(t, "nb"))
		}
		if rapid.Bool().Draw(t, "na?") {
			s.NAOff = pointer.Int64(rapid.SampledFrom(offs).Draw(t, "na"))
		}
	}
	return s
}

func genAdvance(t *rapid.T) int64 {
	switch rapid.IntRange(0, 19).Draw(t, "tickkind") {
	case 0:
		return int64(rapid.IntRange(1, 999).Draw(t, "subsec"))
	case 1:
		return int64(rapid.IntRange(1001, 1999).Draw(t, "offbeat"))
	case 2:
		return int64(rapid.IntRange(2, 90).Draw(t, "delay")) * 1000
	case 3:
		return int64(rapid.SampledFrom([]int{60, 119, 120, 299, 300, 301, 600, 3599, 3600, 3601, 7200, 86400, 90000, 172800, 31 * 86400}).Draw(t, "stall")) * 1000
	case 4:
		return 60000
	}
	return 1000
}

func genNames(t *rapid.T, n int) []string {
	pool := []string{"a", "b", "jc", "job-config", "x.y", "with.dots.1", "n1", "n2", "n3", "n4", "n5", "n6"}
	seen := map[string]bool{}
	var out []string
	for len(out) < n {
		s := rapid.SampledFrom(pool).Draw(t, "name")
		if seen[s] {
			s = fmt.Sprintf("%s-%d", s, len(out))
		}
		seen[s] = true
		out = append(out, s)
	}
	// the same bare name in a second namespace: everything keyed by name alone would collide
	for i := 1; i < len(out); i++ {
		if rapid.IntRange(0, 3).Draw(t, "otherNS") == 0 {
			_, bare := nsName(out[rapid.IntRange(0, i-1).Draw(t, "sameAs")])
			if c := "other/" + bare; !seen[c] {
				seen[c] = true
				out[i] = c
			}
		}
	}
	return out
}

// genCronCase draws a case. mode: "steady" (C01), "restart" (C04), "events" (C03).
func genCronCase(mode string, maxJCs, maxTicks int) func(t *rapid.T) CronCase {
	return func(t *rapid.T) CronCase {
		c := CronCase{Start: 0, Cfg: genSimCfg(t)}
		denseBias := 3
		if mode == "events" {
			denseBias = 7
		}
		start := genStart(t)
		c.Start = start.UnixMilli()
		n := rapid.IntRange(1, maxJCs).Draw(t, "njc")
		c.Names = genNames(t, n)
		created := make([]bool, n)
		// history before the controller starts
		for i := 0; i < n; i++ {
			if mode == "events" && rapid.IntRange(0, 2).Draw(t, "late") == 0 {
				continue // created after start
			}
			c.Pre = append(c.Pre, CronOp{Kind: "create", JC: i, Sched: genSched(t, c.Cfg, true, denseBias)})
			created[i] = true
			if mode == "restart" && rapid.IntRange(0, 3).Draw(t, "explicitLU?") == 0 {
				c.Pre[len(c.Pre)-1].Sched.LUOff = pointer.Int64(int64(rapid.SampledFrom([]int{60, 120, 300, 600, 3600, 7200, 90000, 200000}).Draw(t, "luOff")))
			}
			if mode == "restart" {
				if rapid.Bool().Draw(t, "age?") {
					c.Pre = append(c.Pre, CronOp{Kind: "advance", AdvMs: int64(rapid.SampledFrom([]int{1, 59, 60, 299, 300, 301, 3600, 86400}).Draw(t, "age")) * 1000})
				}
				if rapid.IntRange(0, 3).Draw(t, "ls?") != 0 {
					c.Pre = append(c.Pre, CronOp{Kind: "setStatus", JC: i, LSOff: pointer.Int64(-int64(rapid.SampledFrom([]int{0, 1, 59, 60, 61, 120, 299, 300, 301, 600, 3600, 86400}).Draw(t, "lsoff")))})
				}
			}
		}
		if mode == "restart" && rapid.Bool().Draw(t, "downtime?") {
			c.Pre = append(c.Pre, CronOp{Kind: "advance", AdvMs: int64(rapid.SampledFrom([]int{1, 30, 60, 61, 299, 300, 301, 3599, 3600, 3601, 90000}).Draw(t, "downtime")) * 1000})
		}
		nops := rapid.IntRange(3, maxTicks).Draw(t, "nops")
		for len(c.Ops) < nops {
			k := "tick"
			if mode == "events" {
				k = rapid.SampledFrom([]string{"tick", "tick", "tick", "tick", "create", "edit", "edit", "touch", "delete", "deliver", "deliver", "toggle"}).Draw(t, "op")
			} else if mode == "restart" && rapid.IntRange(0, 14).Draw(t, "restart?") == 0 {
				k = "restart"
			}
			i := rapid.IntRange(0, n-1).Draw(t, "jcidx")
			switch k {
			case "tick":
				c.Ops = append(c.Ops, CronOp{Kind: "tick", AdvMs: genAdvance(t)})
			case "restart":
				if rapid.Bool().Draw(t, "ls-before-restart") {
					c.Ops = append(c.Ops, CronOp{Kind: "setStatus", JC: i, LSOff: pointer.Int64(-int64(rapid.SampledFrom([]int{0, 1, 30, 60, 120, 300, 301, 3600}).Draw(t, "lsoff2")))})
				}
				c.Ops = append(c.Ops, CronOp{Kind: "advance", AdvMs: int64(rapid.SampledFrom([]int{0, 1, 30, 60, 299, 300, 301, 3600}).Draw(t, "down")) * 1000}, CronOp{Kind: "restart"})
			case "create":
				if !created[i] {
					c.Ops = append(c.Ops, CronOp{Kind: "create", JC: i, Sched: genSched(t, c.Cfg, true, denseBias)})
					created[i] = true
				}
			case "edit":
				if created[i] {
					s := genSched(t, c.Cfg, true, denseBias)
					if rapid.IntRange(0, 7).Draw(t, "dropsched") == 0 {
						s = &SchedSpec{NoSchedule: true}
					}
					c.Ops = append(c.Ops, CronOp{Kind: "edit", JC: i, Sched: s})
				}
			case "toggle":
				if created[i] {
					c.Ops = append(c.Ops, CronOp{Kind: "toggle", JC: i})
				}
			case "touch":
				if created[i] {
					c.Ops = append(c.Ops, CronOp{Kind: "touch", JC: i})
				}
			case "delete":
				if created[i] {
					c.Ops = append(c.Ops, CronOp{Kind: "delete", JC: i})
					created[i] = false
				}
			case "deliver":
				c.Ops = append(c.Ops, CronOp{Kind: "deliver", N: rapid.IntRange(0, 3).Draw(t, "ndeliver")})
			}
		}
		return c
	}
}

// ---------- runner with the reference model ----------

type refEntry struct {
	uid        string
	schedJSON  string
	stream     *refStream
	cursor     time.Time
	flush      bool
	changeTime time.Time
	lastReq    time.Time
}

type cronRun struct {
	c           CronCase
	w           *sim.World
	start       time.Time
	model       map[string]*refEntry
	res         pbt.Result
	labels      map[string]bool
	autoDeliver bool
	evBetween   bool // an event was delivered since the last tick
	prevTickHad bool
	evAfterReq  bool
	ntEvents    bool
	totalReq    int
	quietTicks  int
}

func (r *cronRun) label(s string) { r.labels[s] = true }

func schedJSON(jc *execution.JobConfig) string {
	b, _ := json.Marshal(jc.Spec.Schedule)
	return string(b)
}

func (r *cronRun) observe(typ string, obj runtime.Object) *pbt.Violation {
	jc := obj.(*execution.JobConfig)
	key := jc.Namespace + "/" + jc.Name
	switch typ {
	case "DELETED":
		delete(r.model, key)
		r.label("event:delete")
		return nil
	}
	stream, err := newRefStream(jc, r.c.Cfg)
	if err != nil {
		return pbt.V("HARNESS", "reference/parse", "reference cannot parse an admitted JobConfig %s: %v", key, err)
	}
	e := r.model[key]
	changed := mtime(jc)
	if e == nil || e.uid != string(jc.UID) {
		r.model[key] = &refEntry{uid: string(jc.UID), schedJSON: schedJSON(jc), stream: stream, flush: true, changeTime: changed}
		r.label("event:create")
		return nil
	}
	if sj := schedJSON(jc); sj != e.schedJSON {
		e.schedJSON, e.stream, e.flush, e.changeTime = sj, stream, true, changed
		r.label("event:schedule-change")
	} else {
		r.label("event:non-schedule-edit")
	}
	return nil
}

// mtime is the API-side time of the last schedule change (stamped by admission).
func mtime(jc *execution.JobConfig) time.Time {
	if s := jc.Spec.Schedule; s != nil && s.LastUpdated != nil {
		return s.LastUpdated.Time
	}
	return jc.CreationTimestamp.Time
}

func (r *cronRun) deliver(n int) *pbt.Violation {
	evs := r.w.API.Pending["ctrl"][sim.ResJobConfigs]
	if n <= 0 || n > len(evs) {
		n = len(evs)
	}
	for _, ev := range evs[:n] {
		if v := r.observe(ev.Type, ev.Obj); v != nil {
			return v
		}
		r.evBetween = true
	}
	r.w.Deliver("ctrl", sim.ResJobConfigs, n)
	return nil
}

// boot (re)starts the controller process; the reference restarts from the
// persisted state of every JobConfig.
func (r *cronRun) boot() *pbt.Violation {
	r.w.Kill()
	now := r.w.Clock.Now()
	r.model = map[string]*refEntry{}
	for _, jc := range r.w.API.JobConfigs() {
		stream, err := newRefStream(jc, r.c.Cfg)
		if err != nil {
			return pbt.V("HARNESS", "reference/parse", "reference cannot parse %s: %v", jc.Name, err)
		}
		r.model[jc.Namespace+"/"+jc.Name] = &refEntry{uid: string(jc.UID), schedJSON: schedJSON(jc), stream: stream, cursor: refInitialCursor(jc, r.c.Cfg, now), changeTime: mtime(jc)}
	}
	if err := r.w.StartProcess(); err != nil {
		return pbt.V("C17", "cron/init-failed", "cron worker cannot initialise from admitted JobConfigs: %v", err)
	}
	return nil
}

func (r *cronRun) tick(prop string) *pbt.Violation {
	now := r.w.Clock.Now()
	max := r.c.Cfg.maxMissed()
	type exp struct {
		want     []time.Time
		optional func(time.Time) bool
	}
	expected := map[string]*exp{}
	keys := make([]string, 0, len(r.model))
	for k := range r.model {
		keys = append(keys, k)
	}
	sort.Strings(keys)
	anyExpected := false
	for _, k := range keys {
		e := r.model[k]
		x := &exp{}
		expected[k] = x
		if e.flush {
			e.flush = false
			from, stream := e.changeTime, e.stream
			e.cursor = now
			// Matches between the change and this tick may be requested or not: the
			// statement promises "from the moment of the change", the implementation
			// re-bases at the tick that sees the change.
			x.optional = func(t time.Time) bool {
				if stream == nil || !t.After(from) || t.After(now) {
					return false
				}
				n := stream.next(t.Add(-time.Second))
				return n.Equal(t)
			}
			continue
		}
		if e.stream == nil {
			continue
		}
		due := e.stream.due(e.cursor, now, max)
		if len(due) > max {
			x.want = due[:max]
			e.cursor = now
			r.label("cap-hit")
		} else {
			x.want = due
			if len(due) > 0 {
				e.cursor = due[len(due)-1]
			}
		}
		if len(x.want) > 0 {
			anyExpected = true
		}
	}
	before := len(r.w.Requests)
	r.w.CronTick()
	got := map[string][]sim.CronRequest{}
	for _, q := range r.w.Requests[before:] {
		got[q.Key] = append(got[q.Key], q)
		if q.Time.After(now) {
			return pbt.V(prop, "cron/early", "schedule time %v of %s requested at %v, before it arrived", q.Time.UTC(), q.Key, now.UTC())
		}
	}
	keysInTick := 0
	for k, qs := range got {
		e := r.model[k]
		if e == nil {
			return pbt.V(prop, "cron/unexpected-jobconfig", "request %v for %s, which is deleted or unknown to the controller", qs[0].Time.UTC(), k)
		}
		keysInTick++
		_ = e
	}
	if keysInTick >= 2 {
		r.label("multi-jobconfig-tick")
	}
	for _, k := range keys {
		e, x := r.model[k], expected[k]
		var filtered []time.Time
		for _, q := range got[k] {
			if x.optional != nil && x.optional(q.Time) {
				r.label("optional-window-request")
				continue
			}
			filtered = append(filtered, q.Time)
			if q.UID != e.uid {
				return pbt.V(prop, "cron/stale-object", "request for %s carries UID %s, current object is %s", k, q.UID, e.uid)
			}
		}
		if !equalTimes(filtered, x.want) {
			sig := "cron/missing"
			switch {
			case len(filtered) > len(x.want):
				sig = "cron/extra"
			case len(filtered) == len(x.want):
				sig = "cron/wrong-time"
			}
			return pbt.V(prop, sig, "tick %d at %v: %s requested %v, reference expects %v (cursor model; cap %d)", r.w.Ticks, now.UTC(), k, fmtTimes(filtered), fmtTimes(x.want), max)
		}
		for _, t := range filtered {
			if !e.lastReq.IsZero() && !t.After(e.lastReq) {
				return pbt.V(prop, "cron/not-increasing", "%s: %v requested after %v", k, t.UTC(), e.lastReq.UTC())
			}
			e.lastReq = t
		}
		r.totalReq += len(filtered)
	}
	tickHad := anyExpected || len(r.w.Requests) > before
	if r.evBetween && r.prevTickHad {
		r.evAfterReq = true
	}
	if r.evAfterReq && tickHad {
		r.ntEvents = true
	}
	if !tickHad {
		r.quietTicks++
	}
	r.prevTickHad = r.prevTickHad || tickHad
	r.evBetween = false
	if now.Nanosecond() != 0 {
		r.label("sub-second-tick")
	}
	return nil
}

func equalTimes(a, b []time.Time) bool {
	if len(a) != len(b) {
		return false
	}
	for i := range a {
		if !a[i].Equal(b[i]) {
			return false
		}
	}
	return true
}

func fmtTimes(ts []time.Time) string {
	var s []string
	for _, t := range ts {
		s = append(s, t.UTC().Format("2006-01-02T15:04:05Z"))
	}
	return "[" + strings.Join(s, " ") + "]"
}

func (r *cronRun) apply(op CronOp, prop string) *pbt.Violation {
	w := r.w
	key := func(i int) string { ns, n := nsName(r.c.Names[i]); return ns + "/" + n }
	switch op.Kind {
	case "advance":
		w.Advance(time.Duration(op.AdvMs) * time.Millisecond)
	case "create":
		if _, err := w.UserCreate(sim.ResJobConfigs, jcFromSched(r.c.Names[op.JC], op.Sched, r.start)); err != nil {
			r.label("create-rejected")
		}
	case "edit":
		err := w.UserUpdate(sim.ResJobConfigs, key(op.JC), func(o runtime.Object) { applySched(o.(*execution.JobConfig), op.Sched, r.start) })
		if err != nil {
			r.label("edit-rejected")
		}
	case "toggle":
		_ = w.UserUpdate(sim.ResJobConfigs, key(op.JC), func(o runtime.Object) {
			if s := o.(*execution.JobConfig).Spec.Schedule; s != nil {
				s.Disabled = !s.Disabled
			}
		})
	case "touch":
		_ = w.UserUpdate(sim.ResJobConfigs, key(op.JC), func(o runtime.Object) {
			jc := o.(*execution.JobConfig)
			if jc.Labels == nil {
				jc.Labels = map[string]string{}
			}
			jc.Labels["touched"] = fmt.Sprint(len(w.API.Ledger))
			jc.Spec.Template.Spec.MaxAttempts = pointer.Int64(int64(len(w.API.Ledger)%5 + 1))
		})
	case "delete":
		dns, dn := nsName(r.c.Names[op.JC])
		_ = w.UserDelete(sim.ResJobConfigs, dns, dn)
	case "setStatus":
		o := w.API.Get(sim.ResJobConfigs, key(op.JC))
		if o != nil {
			jc := o.(*execution.JobConfig)
			jc.Status.LastScheduled = mt(w.Clock.Now().Add(time.Duration(*op.LSOff) * time.Second).Truncate(time.Second))
			jc.ResourceVersion = ""
			w.API.BeginStep("jobconfig")
			_, _ = w.API.Update(sim.ResJobConfigs, jc, "status")
			r.label("persisted-lastScheduled")
		}
	case "deliver":
		return r.deliver(op.N)
	case "restart":
		r.label("restart")
		return r.boot()
	case "tick":
		w.Advance(time.Duration(op.AdvMs) * time.Millisecond)
		if op.AdvMs >= 60000 {
			r.label("stall")
		}
		if r.autoDeliver {
			if v := r.deliver(0); v != nil {
				return v
			}
		}
		return r.tick(prop)
	}
	// webhook-side cache is irrelevant here; keep it drained
	for _, res := range sim.AllRes {
		w.Deliver("hook", res, 0)
	}
	return nil
}

func runCronCase(prop, mode string) func(c CronCase) pbt.Result {
	return func(c CronCase) pbt.Result {
		r := &cronRun{c: c, start: time.UnixMilli(c.Start), labels: map[string]bool{}, autoDeliver: mode != "events"}
		r.w = sim.NewWorld(sim.Options{Start: r.start, CronOnly: true})
		r.w.SetConfig(configv1alpha1.CronExecutionConfigName, c.Cfg.typedFull())
		finish := func(v *pbt.Violation) pbt.Result {
			for l := range r.labels {
				r.res.Labels = append(r.res.Labels, l)
			}
			sort.Strings(r.res.Labels)
			r.res.Violation = v
			if v != nil && v.Property == "HARNESS" {
				// a reference-model gap is not a verdict about furiko: skip the case
				r.res.Violation = nil
				r.res.Labels = append(r.res.Labels, "skipped:"+v.Signature)
				r.res.NonTrivial = false
				return r.res
			}
			switch mode {
			case "events":
				r.res.NonTrivial = r.ntEvents
			case "restart":
				r.res.NonTrivial = r.totalReq > 0 && r.labels["persisted-lastScheduled"]
			default:
				r.res.NonTrivial = r.totalReq > 0 && r.quietTicks > 0
			}
			r.res.Extra = map[string]int{"requests": r.totalReq, "ticks": r.w.Ticks}
			return r.res
		}
		for _, op := range c.Pre {
			if v := r.apply(op, prop); v != nil {
				return finish(v)
			}
		}
		if v := r.boot(); v != nil {
			return finish(v)
		}
		for _, op := range c.Ops {
			if v := r.apply(op, prop); v != nil {
				return finish(v)
			}
			if r.totalReq > 5000 {
				break
			}
		}
		return finish(nil)
	}
}

func TestC01_steady(t *testing.T) {
	maxJCs, maxTicks := 12, 120
	if pbt.Thorough() {
		maxJCs, maxTicks = 60, 400
	}
	pbt.Check(t, pbt.Opts{ID: "C01", Name: "steady", Checks: 4000, ThoroughMul: 12,
		Rule: "1..12 JobConfigs (quick; up to 60 thorough) with 1-3 expressions from the 5/6/7-field grammar (H, L, W, #, names), 14 zones incl. DST zones and fixed offsets, notBefore/notAfter around the window, cron config (format, hash flags, default zone, maxMissedSchedules 0..8), start instants biased to DST transitions / month / year ends, ticks of +1 s, sub-second offsets, delays, stalls up to a month; the real CronWorker.Work() is called at each instant and its requests compared per JobConfig with the cursor model over the cron library's own iteration; non-trivial = at least one request and at least one quiet tick; distinct = distinct case"},
		genCronCase("steady", maxJCs, maxTicks), runCronCase("C01", "steady"))
}

func TestC04_restart(t *testing.T) {
	pbt.Check(t, pbt.Opts{ID: "C04", Name: "restart", Checks: 4000, ThoroughMul: 12,
		Rule: "JobConfigs created at generated ages with generated persisted status.lastScheduled, constraints and dynamic configuration (maxDowntimeThresholdSeconds unset/1/60/300/3600, maxMissedSchedules), generated downtime, then a freshly constructed CronWorker (Init + ticks), plus further crash/restart points; requests compared with the reference lower bound + cursor model; non-trivial = a persisted lastScheduled and at least one request; distinct = distinct case"},
		genCronCase("restart", 6, 60), runCronCase("C04", "restart"))
}

func TestC03_events(t *testing.T) {
	pbt.Check(t, pbt.Opts{ID: "C03", Name: "events", Checks: 4000, ThoroughMul: 12,
		Rule: "interleavings of JobConfig create-after-start / schedule edit / non-schedule edit / enable-disable / delete / delete-then-recreate (all through the real admission webhooks) with ticks, stalls and generated informer delivery lag; requests compared with the versioned reference over the state knowable to the controller; non-trivial = a JobConfig event is delivered after some tick produced requests and a later tick produces (or should produce) requests; distinct = distinct case"},
		genCronCase("events", 5, 80), runCronCase("C03", "events"))
}
