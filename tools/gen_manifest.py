#!/usr/bin/env python3
"""Regenerates /verif/MANIFEST.json from tools/manifest_table.json (claimed checks) - anything not in the table is listed under not_applicable."""
import json, os
ROOT = os.path.dirname(os.path.dirname(os.path.abspath(__file__)))
table = json.load(open(os.path.join(ROOT, "tools", "manifest_table.json")))
ids = ["C%02d" % i for i in range(1, 21)]
checks, na = [], []
for i in ids:
    t = table["checks"].get(i)
    if not t:
        na.append(dict(property_id=i, reason=table["not_applicable"].get(i, "check under construction in this session; not claimed until it is quiet on the unchanged tree and red on its sensitivity mutations")))
        continue
    checks.append(dict(
        property_id=i,
        quick_cmd="./check %s --tier quick" % i,
        thorough_cmd="./check %s --tier thorough" % i,
        evidence_file="/verif/evidence/%s.json" % i,
        replay_cmd_template="./check %s --replay {path}" % i,
        engine=t["engine"],
        level_claimed=dict(category=t["level"], text=t["text"], design_ref=t.get("design_ref", "DESIGN.md section 5, " + i)),
        level_note=t["note"],
        technique=t["technique"],
    ))
m = dict(
    version=1,
    setup_cmd="./check --setup",
    hooks=dict(guard="verif (Go build tag)", enable="go test -tags verif (the harness module /verif/harness replaces github.com/furiko-io/furiko with /repo)",
               baseline_off_cmd=table["baseline_off_cmd"], source_commits=table["hook_commits"], add_only=True),
    engines=table["engines"],
    checks=checks,
    notes=table["notes"],
    not_applicable=na,
)
json.dump(m, open(os.path.join(ROOT, "MANIFEST.json"), "w"), indent=1)
print("claimed:", [c["property_id"] for c in checks])
