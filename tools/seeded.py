#!/usr/bin/env python3
"""Runs every independently written breaking change under seeded/, seeded2/ and seeded3/ against
the check of the property it was written against: the patch is applied to a scratch
worktree of /repo (never to /repo itself) and `./check <ID> --repo <worktree>`
is run at several seeds. Prints one line per (change, property, seed).

  tools/seeded.py [--only ID[,ID]] [--seeds 1,2,3] [--jobs N] [--out FILE]
"""
import argparse, glob, json, os, subprocess, sys, threading, queue
ROOT = os.path.dirname(os.path.dirname(os.path.abspath(__file__)))
ENV = dict(os.environ, GOFLAGS="-mod=mod", GOPROXY="off", GOSUMDB="off", GOTOOLCHAIN="local")

def sh(cmd, cwd=None, env=None, timeout=3600):
    try:
        return subprocess.run(cmd, shell=True, cwd=cwd, env=env or ENV, stdout=subprocess.PIPE, stderr=subprocess.STDOUT, text=True, timeout=timeout)
    except subprocess.TimeoutExpired:
        class R: returncode = 2; stdout = "timeout"
        return R()

def main():
    ap = argparse.ArgumentParser()
    ap.add_argument("--only", default="")
    ap.add_argument("--seeds", default="1,2,3")
    ap.add_argument("--jobs", type=int, default=3)
    ap.add_argument("--out", default="")
    a = ap.parse_args()
    only = set(x for x in a.only.split(",") if x)
    seeds = [int(x) for x in a.seeds.split(",")]
    todo = []
    for mf in sorted(glob.glob(os.path.join(ROOT, "seeded", "*", "meta.json"))) + sorted(glob.glob(os.path.join(ROOT, "seeded2", "*", "meta.json"))) + sorted(glob.glob(os.path.join(ROOT, "seeded3", "*", "meta.json"))):
        m = json.load(open(mf))
        m["dir"] = os.path.dirname(mf)
        m["tag"] = os.path.basename(os.path.dirname(os.path.dirname(mf))) + "/" + m["id"]
        if only and m["id"] not in only and m["tag"] not in only:
            continue
        if m.get("counted") is False:
            continue  # recorded as not reachable (see its meta.json)
        todo.append(m)
    q = queue.Queue()
    for m in todo:
        q.put(m)
    rows, lock = [], threading.Lock()
    def worker(k):
        wt = "/tmp/seeded-wt-%d" % k
        while True:
            try:
                m = q.get_nowait()
            except queue.Empty:
                return
            sh("git -C /repo worktree remove --force %s" % wt)
            r = sh("git -C /repo worktree add -q --detach %s HEAD" % wt)
            r = sh("git apply %s" % os.path.join(m["dir"], "patch.diff"), wt)
            if r.returncode != 0:
                line = "%s | PATCH DOES NOT APPLY | %s" % (m["tag"], r.stdout.strip()[:200])
                with lock:
                    rows.append(line); print(line, flush=True)
                continue
            for p in m["breaks_properties"][:1]:
                for s in seeds:
                    r = sh("./check %s --repo %s" % (p, wt), ROOT, env=dict(ENV, VERIF_SEED=str(s)))
                    sig = ""
                    for l in r.stdout.splitlines():
                        if "violated oracle" in l:
                            sig = l.strip()[16:120]; break
                    line = "%s | %s seed %d | %s | %s" % (m["tag"], p, s, {0: "MISSED", 1: "detected", 2: "inconclusive"}.get(r.returncode, r.returncode), sig)
                    with lock:
                        rows.append(line); print(line, flush=True)
            sh("git -C /repo worktree remove --force %s" % wt)
        sh("git -C /repo worktree prune")
    ts = [threading.Thread(target=worker, args=(k,)) for k in range(a.jobs)]
    for t in ts: t.start()
    for t in ts: t.join()
    sh("git -C /repo worktree prune")
    if a.out:
        open(a.out, "w").write("\n".join(sorted(rows)) + "\n")

if __name__ == "__main__":
    main()
