package props

import (
	"encoding/json"
	"fmt"
	"os"
	"sort"
	"strings"
	"time"

	corev1 "k8s.io/api/core/v1"
	metav1 "k8s.io/apimachinery/pkg/apis/meta/v1"
	"k8s.io/apimachinery/pkg/runtime"
	"k8s.io/utils/pointer"
	"pgregory.net/rapid"

	configv1alpha1 "github.com/furiko-io/furiko/apis/config/v1alpha1"
	execution "github.com/furiko-io/furiko/apis/execution/v1alpha1"

	"verif/harness/pbt"
	"verif/harness/sim"
)

// ================= E2: histories on the simulated control plane =================

type E2JC struct {
	Name           string `json:"name"`
	Policy         string `json:"policy"`
	MaxConc        *int64 `json:"maxConc,omitempty"`
	ParKind        string `json:"parKind,omitempty"` // ""|count|keys|matrix
	ParN           int    `json:"parN,omitempty"`
	Strategy       string `json:"strategy,omitempty"`
	MaxAttempts    *int64 `json:"maxAttempts,omitempty"`
	RetryDelay     *int64 `json:"retryDelay,omitempty"`
	PendingTimeout *int64 `json:"pendingTimeout,omitempty"`
	ForbidForce    bool   `json:"forbidForce,omitempty"`
	Cron           string `json:"cron,omitempty"`
	TTL            *int64 `json:"ttl,omitempty"` // copied into Jobs created by users (cron Jobs get the config default)
	// TemplateMeta puts labels/annotations on the job template, including the
	// reserved keys the controllers write themselves.
	TemplateMeta bool `json:"templateMeta,omitempty"`
	// TemplateMetaKind: "" = both reserved keys, "ann" = only the schedule-time
	// annotation, "label" = only the JobConfig UID label (a stale UID label makes
	// the validating webhook refuse the Job, which would mask a wrong annotation).
	TemplateMetaKind string `json:"templateMetaKind,omitempty"`
	// RestartOnFailure lets the kubelet model restart a container in place.
	RestartOnFailure bool `json:"restartOnFailure,omitempty"`
}

type E2Cfg struct {
	PendingDefault *int64 `json:"pendingDefault,omitempty"`
	ForceDelete    *int64 `json:"forceDelete,omitempty"`
	TTLDefault     *int64 `json:"ttlDefault,omitempty"`
	MaxEnqueued    *int64 `json:"maxEnqueued,omitempty"`
	MaxMissed      *int64 `json:"maxMissed,omitempty"`
}

type E2Op struct {
	K string         `json:"k"`           // op kind
	A string         `json:"a,omitempty"` // primary object (name / key / queue / resource)
	B string         `json:"b,omitempty"` // secondary (policy, kubelet action, cache set ...)
	N int            `json:"n,omitempty"`
	D int64          `json:"d,omitempty"` // duration in ms / offset in s
	F *sim.Fault     `json:"f,omitempty"`
	C *sim.CrashPlan `json:"c,omitempty"`
	X string         `json:"x,omitempty"` // extra: createJob "finalizer" = the Job is created with somebody else's finalizer
}

const foreignFinalizer = "example.com/other"

type E2Trace struct {
	Start   int64  `json:"start"`
	Cfg     E2Cfg  `json:"cfg"`
	JCs     []E2JC `json:"jcs"`
	Ops     []E2Op `json:"ops"`
	Profile string `json:"profile"`
	// AutoRestart reboots the controller process before the next op whenever it
	// has crashed (scripted workloads of the fault sweeps).
	AutoRestart bool `json:"autoRestart,omitempty"`
	// ListSalt fixes the order in which the caches return lists in this run (0 = key order).
	ListSalt uint64 `json:"listSalt,omitempty"`
}

func (j E2JC) parallelism() *execution.ParallelismSpec {
	strat := execution.ParallelCompletionStrategy(j.Strategy)
	switch j.ParKind {
	case "count":
		return &execution.ParallelismSpec{WithCount: pointer.Int64(int64(j.ParN)), CompletionStrategy: strat}
	case "keys":
		return &execution.ParallelismSpec{WithKeys: []string{"ka", "kb", "kc", "kd"}[:j.ParN], CompletionStrategy: strat}
	case "matrix":
		m := map[string][]string{"os": {"linux", "mac"}}
		if j.ParN > 2 {
			m["arch"] = []string{"arm", "x86"}
		}
		return &execution.ParallelismSpec{WithMatrix: m, CompletionStrategy: strat}
	}
	return nil
}

func (j E2JC) template() execution.JobTemplate {
	pod := &execution.PodTemplateSpec{Spec: corev1.PodSpec{Containers: []corev1.Container{{Name: "main", Image: "alpine", Args: []string{"${job.name}"}}}}}
	if j.RestartOnFailure {
		pod.Spec.RestartPolicy = corev1.RestartPolicyOnFailure
	}
	return execution.JobTemplate{
		TaskTemplate:              execution.TaskTemplate{Pod: pod},
		Parallelism:               j.parallelism(),
		MaxAttempts:               j.MaxAttempts,
		RetryDelaySeconds:         j.RetryDelay,
		TaskPendingTimeoutSeconds: j.PendingTimeout,
		ForbidTaskForceDeletion:   j.ForbidForce,
	}
}

func (j E2JC) object() *execution.JobConfig {
	jc := &execution.JobConfig{
		ObjectMeta: metav1.ObjectMeta{Name: j.Name, Namespace: "ns"},
		Spec: execution.JobConfigSpec{
			Template:    execution.JobTemplateSpec{Spec: j.template()},
			Concurrency: execution.ConcurrencySpec{Policy: execution.ConcurrencyPolicy(j.Policy), MaxConcurrency: j.MaxConc},
		},
	}
	if j.Cron != "" {
		jc.Spec.Schedule = &execution.ScheduleSpec{Cron: &execution.CronSchedule{Expression: j.Cron}}
	}
	if j.TemplateMeta {
		// e.g. a template pasted from `kubectl get job -o yaml` of an earlier Job
		jc.Spec.Template.Labels = map[string]string{"team": "a"}
		jc.Spec.Template.Annotations = map[string]string{"note": "b"}
		if j.TemplateMetaKind != "ann" {
			jc.Spec.Template.Labels[labelJobConfigUID] = "stale-uid"
		}
		if j.TemplateMetaKind != "label" {
			jc.Spec.Template.Annotations[annScheduleTime] = "1600000000"
		}
	}
	return jc
}

func (c E2Cfg) apply(w *sim.World) {
	w.SetConfig(configv1alpha1.JobExecutionConfigName, &configv1alpha1.JobExecutionConfig{
		DefaultPendingTimeoutSeconds: c.PendingDefault, ForceDeleteTaskTimeoutSeconds: c.ForceDelete, DefaultTTLSecondsAfterFinished: c.TTLDefault})
	w.SetConfig(configv1alpha1.JobConfigExecutionConfigName, &configv1alpha1.JobConfigExecutionConfig{MaxEnqueuedJobs: c.MaxEnqueued})
	w.SetConfig(configv1alpha1.CronExecutionConfigName, &configv1alpha1.CronExecutionConfig{MaxMissedSchedules: c.MaxMissed})
}

func (c E2Cfg) pendingDefault() int64 {
	if c.PendingDefault != nil {
		return *c.PendingDefault
	}
	return 900
}
func (c E2Cfg) forceDelete() int64 {
	if c.ForceDelete != nil {
		return *c.ForceDelete
	}
	return 900
}
func (c E2Cfg) ttlDefault() int64 {
	if c.TTLDefault != nil {
		return *c.TTLDefault
	}
	return 3600
}

// ---------- the run: a world plus the trace applied so far ----------

type e2run struct {
	tr       *E2Trace
	w        *sim.World
	mon      *monitor
	nJobs    int
	labels   map[string]bool
	excluded int
}

func newE2Run(tr *E2Trace, withMonitors bool) *e2run {
	r := &e2run{tr: tr, labels: map[string]bool{}}
	sim.ListSalt = tr.ListSalt
	r.w = sim.NewWorld(sim.Options{Start: time.UnixMilli(e2Epoch(tr.Start))})
	tr.Cfg.apply(r.w)
	if withMonitors {
		r.mon = newMonitor(r)
		r.w.API.OnEntry = append(r.w.API.OnEntry, r.mon.onEntry)
		r.w.OnMid = r.mon.onMid
	}
	for _, j := range tr.JCs {
		if _, err := r.w.UserCreate(sim.ResJobConfigs, j.object()); err != nil {
			panic(fmt.Sprintf("setup: JobConfig %s rejected: %v", j.Name, err))
		}
	}
	r.w.DeliverAll()
	if err := r.w.StartProcess(); err != nil {
		panic(err)
	}
	return r
}

func (r *e2run) label(s string) { r.labels[s] = true }

func (r *e2run) releaseForeignFinalizer(key string) {
	_ = r.w.UserUpdate(sim.ResJobs, key, func(o runtime.Object) {
		j := o.(*execution.Job)
		var keep []string
		for _, f := range j.Finalizers {
			if f != foreignFinalizer {
				keep = append(keep, f)
			}
		}
		j.Finalizers = keep
	})
}

// e2Epoch places the simulated epoch in the wall clock's future (deadlines of
// AddAfter are recovered from wall-clock durations, see sim.Queue). Traces saved
// before that change carry a 2022 start and are shifted by 3652 days.
func e2Epoch(startMs int64) int64 {
	if startMs < 1900000000000 {
		return startMs + 3652*86400*1000
	}
	return startMs
}

func (r *e2run) jcSetup(name string) *E2JC {
	for i := range r.tr.JCs {
		if r.tr.JCs[i].Name == name {
			return &r.tr.JCs[i]
		}
	}
	return nil
}

func (r *e2run) queueByName(n string) *sim.Queue {
	for _, q := range r.w.Queues() {
		if q != nil && q.Name == n {
			return q
		}
	}
	return nil
}

// stepQueue runs one reconcile step; for the job controller it first tells the
// monitors which Job is about to sync.
func (r *e2run) stepQueue(q *sim.Queue) {
	if q == r.w.QJob && q.Len() > 0 {
		if r.mon != nil {
			r.mon.beforeJobSync(q.Keys()[0])
		}
	}
	if r.mon != nil {
		r.mon.reconcileBoundary()
	}
	r.w.StepQueue(q)
	if r.mon != nil {
		r.mon.reconcileBoundary()
	}
}

// apply executes one op. It must be total: ops that are not enabled are no-ops.
func (r *e2run) apply(op E2Op) {
	w := r.w
	if r.mon != nil {
		r.mon.reconcileBoundary()
	}
	if !w.Alive && r.tr.AutoRestart && op.K != "restart" {
		w.Kill()
		if err := w.StartProcess(); err != nil {
			panic(err)
		}
		r.label("restart")
	}
	switch op.K {
	case "createJob": // A=jobconfig name ("" = independent), B=policy override, D=startAfter offset s (0 = none), N=job number
		job := &execution.Job{ObjectMeta: metav1.ObjectMeta{Name: fmt.Sprintf("adhoc-%d", op.N), Namespace: "ns"}}
		if op.A != "" {
			job.Spec.ConfigName = op.A
			if j := r.jcSetup(op.A); j != nil && j.TTL != nil {
				job.Spec.TTLSecondsAfterFinished = j.TTL
			}
		} else {
			jt := E2JC{MaxAttempts: pointer.Int64(2)}.template()
			job.Spec.Template = &jt
		}
		if op.B != "" || op.D != 0 {
			job.Spec.StartPolicy = &execution.StartPolicySpec{ConcurrencyPolicy: execution.ConcurrencyPolicy(op.B)}
			if op.B == "" && op.A == "" {
				job.Spec.StartPolicy.ConcurrencyPolicy = execution.ConcurrencyPolicyAllow
			}
			if op.D != 0 {
				t := metav1.NewTime(w.Clock.Now().Add(time.Duration(op.D) * time.Second).Truncate(time.Second))
				job.Spec.StartPolicy.StartAfter = &t
			}
		}
		if op.X == "finalizer" {
			job.Finalizers = []string{foreignFinalizer}
			r.label("job-with-foreign-finalizer")
		}
		if _, err := w.UserCreate(sim.ResJobs, job); err != nil {
			r.label("job-create-rejected")
		}
	case "releaseFinalizer": // A=job key: the other party releases its finalizer
		r.releaseForeignFinalizer(op.A)
	case "kill": // A=job key, D=offset seconds
		_ = w.UserUpdate(sim.ResJobs, op.A, func(o runtime.Object) {
			t := metav1.NewTime(w.Clock.Now().Add(time.Duration(op.D) * time.Second).Truncate(time.Second))
			o.(*execution.Job).Spec.KillTimestamp = &t
		})
	case "deleteJob":
		ns, name := splitKey(op.A)
		_ = w.UserDelete(sim.ResJobs, ns, name)
	case "deletePod":
		ns, name := splitKey(op.A)
		_ = w.UserDelete(sim.ResPods, ns, name)
	case "orphanPod": // A=pod key: its owner references are stripped (what the garbage collector does under orphan propagation)
		_ = w.UserUpdate(sim.ResPods, op.A, func(o runtime.Object) { o.(*corev1.Pod).OwnerReferences = nil })
		r.label("pod-owner-reference-stripped")
	case "deleteJC":
		ns, name := splitKey(op.A)
		_ = w.UserDelete(sim.ResJobConfigs, ns, name)
	case "plantPod": // A=pod key, B=owner: none|other|job-uid-mismatch
		ns, name := splitKey(op.A)
		p := &corev1.Pod{ObjectMeta: metav1.ObjectMeta{Name: name, Namespace: ns}, Spec: corev1.PodSpec{Containers: []corev1.Container{{Name: "x", Image: "x"}}}}
		t := true
		switch op.B {
		case "other":
			p.OwnerReferences = []metav1.OwnerReference{{APIVersion: "v1", Kind: "ReplicaSet", Name: "rs", UID: "rs-uid", Controller: &t}}
		case "stale-job":
			p.OwnerReferences = []metav1.OwnerReference{{APIVersion: "execution.furiko.io/v1alpha1", Kind: "Job", Name: op.B2(), UID: "some-older-job-uid", Controller: &t}}
		}
		if _, err := w.UserCreate(sim.ResPods, p); err == nil && r.mon != nil {
			r.mon.foreign[op.A] = op.B2()
			r.mon.label("foreign-pod")
		}
	case "deliver": // A=resource, B=cache set, N=count
		w.Deliver(op.B, sim.Res(op.A), op.N)
	case "step": // A=queue name
		if q := r.queueByName(op.A); q != nil {
			r.stepQueue(q)
		}
	case "stepRaw": // one reconcile step without any generator-side exclusion
		if q := r.queueByName(op.A); q != nil {
			if q == w.QJob && q.Len() > 0 && r.mon != nil {
				r.mon.beforeJobSync(q.Keys()[0])
			}
			if r.mon != nil {
				r.mon.reconcileBoundary()
			}
			w.StepQueue(q)
			if r.mon != nil {
				r.mon.reconcileBoundary()
			}
		}
	case "tick":
		w.CronTick()
		if r.mon != nil {
			r.mon.reconcileBoundary()
		}
	case "requeueCron": // duplicate / out-of-order re-delivery of an old (JobConfig, schedule time) key
		if w.Alive {
			w.QCron.Add(op.A)
			r.label("cron-key-redelivered")
		}
	case "advance":
		w.Advance(time.Duration(op.D) * time.Millisecond)
	case "kubelet": // A=pod key, B=action
		switch op.B {
		case "schedule":
			w.KubeletSchedule(op.A)
		case "run":
			w.KubeletRun(op.A)
		case "succeed":
			w.KubeletFinish(op.A, sim.OutSuccess)
		case "fail":
			w.KubeletFinish(op.A, sim.OutFail)
		case "oom":
			w.KubeletFinish(op.A, sim.OutOOM)
		case "flap":
			if w.KubeletFlap(op.A) {
				r.label("running-pod-lost-container-status")
			}
		case "flap-pending":
			if w.KubeletFlapPending(op.A) {
				r.label("running-pod-reported-pending")
			}
		case "unflap":
			w.KubeletUnflap(op.A)
		case "terminate":
			w.KubeletTerminate(op.A)
		case "restart":
			if w.KubeletRestartContainer(op.A) {
				r.label("container-restarted")
			}
		case "restart-oom":
			if w.KubeletRestartContainerOOM(op.A) {
				r.label("container-restarted")
				r.label("container-restarted-after-oom")
			}
		}
	case "settle":
		r.settle()
	case "midDeliver": // A = resource, N = at which next controller create/update, D = count (0 = all)
		w.Mid = &sim.MidPlan{AtCall: op.N, Res: sim.Res(op.A), Count: int(op.D)}
		r.label("mid-reconcile-delivery-armed")
	case "settleLag": // A = resource whose controller-side events are withheld
		r.settleLag(sim.Res(op.A))
		r.label("sustained-lag:" + op.A)
	case "resync":
		w.Resync(sim.Res(op.A))
	case "gc":
		w.GC()
	case "fault":
		f := *op.F
		if f.Name == "excluded" {
			f.Name = ""
			r.excluded++
		}
		w.API.Faults = append(w.API.Faults, &f)
		r.label("fault:" + string(f.Kind))
	case "clearFaults":
		w.API.Faults = nil
	case "crash": // arm a crash for the next controller step
		c := *op.C
		w.API.Crash = &c
	case "restart": // A = order of the initial LISTs, e.g. "jobs,pods,jobconfigs" ("" = default)
		w.Kill()
		w.ListOrder = nil
		if op.A != "" {
			for _, x := range strings.Split(op.A, ",") {
				w.ListOrder = append(w.ListOrder, sim.Res(x))
			}
			r.label("restart-list-order-permuted")
		}
		if err := w.StartProcess(); err != nil {
			panic(err)
		}
		w.ListOrder = nil
		r.label("restart")
	}
	if !w.Alive && op.K != "restart" {
		// the process died in this op (crash plan fired): reboot happens with an explicit restart op
		r.label("crashed")
	}
}

// settle = deliver everything and run every queue to a fixpoint, with the
// pod-ADDED exclusion applied before every job-controller step.
func (r *e2run) settle() bool { return r.settleLag("") }

// settleLag runs to a fixpoint like settle, but withholds the controller-side
// watch events of one resource: sustained cross-resource lag over many
// reconciles. The withheld events stay pending.
func (r *e2run) settleLag(withhold sim.Res) bool {
	w := r.w
	deliver := func() int {
		n := 0
		for _, res := range sim.AllRes {
			n += w.Deliver("hook", res, 0)
			if res != withhold {
				n += w.Deliver("ctrl", res, 0)
			}
		}
		return n
	}
	pending := func() int {
		n := w.PendingCount("hook")
		for _, res := range sim.AllRes {
			if res != withhold {
				n += len(w.API.Pending["ctrl"][res])
			}
		}
		return n
	}
	// With a withheld cache some reconciles legitimately keep failing and retrying
	// (a conflict or AlreadyExists until the cache catches up): keep it short.
	rounds, perQueue := 400, 50
	if withhold != "" {
		rounds, perQueue = 6, 3
	}
	for i := 0; i < rounds; i++ {
		progress := deliver() > 0
		if w.Alive {
			for _, q := range w.Queues() {
				for j := 0; j < perQueue && q.Len() > 0 && w.Alive; j++ {
					r.stepQueue(q)
					progress = true
					if pending() > 0 {
						break
					}
				}
			}
		}
		if !progress {
			return true
		}
	}
	if withhold != "" {
		return true
	}
	r.label("livelock")
	return false
}

// B2 returns the job name a planted Pod is aimed at (carried in F.Name to keep the op flat).
func (o E2Op) B2() string {
	if o.F != nil {
		return o.F.Name
	}
	return ""
}

func splitKey(k string) (string, string) {
	i := strings.IndexByte(k, '/')
	if i < 0 {
		return "", k
	}
	return k[:i], k[i+1:]
}

func keyOf(o metav1.Object) string { return o.GetNamespace() + "/" + o.GetName() }

// ---------- generator: draws the next op from those enabled in the live state ----------

type e2Profile struct {
	name        string
	maxJCs      int
	cron        bool
	faults      bool
	crashes     bool
	foreignPods bool
	lag         bool // generate explicit deliver/step ops (otherwise mostly settle)
	steps       int
	maxJobs     int
	weights     map[string]int
	// confluent restricts the workload to one whose fault-free outcome does not
	// depend on the order in which the controllers get to see the events of a
	// phase (C20 differential): no per-Job policy overrides, Forbid Jobs only into
	// an idle JobConfig, cron JobConfigs never Forbid and never fed by users, at
	// most one new Job per JobConfig and phase, phases separated by >= 1 s.
	confluent bool
	// retryHeavy: every JobConfig is parallel with several attempts and a retry
	// delay, and containers mostly fail, so that several indexes are in back-off at
	// the same time with different due times (C08 backoff sub-check).
	retryHeavy bool
	// forceHeavy: a short force-delete timeout is always configured, a third of the
	// JobConfigs forbid force deletion, and the clock moves in steps around the
	// timeout while Pods linger in termination (C12 force sub-check).
	forceHeavy bool
	// reapHeavy: a pending timeout of 20 s always applies, Pods get scheduled but
	// rarely start in time, and a Pod that is already terminating may still start
	// and exit (C08/C11 reaped sub-checks).
	reapHeavy bool
	// foreignHeavy: every Job is parallel, foreign Pods are planted often, and the
	// injected faults concentrate on the job controller's status writes, so that
	// tasks created next to a foreign Pod stay unrecorded for a while (C09 foreign).
	foreignHeavy bool
	// restartHeavy: every Pod has restartPolicy OnFailure, so containers are often
	// restarted in place (also after an OOM kill) before they exit for good.
	restartHeavy bool
	// enqueueHeavy: every JobConfig uses Enqueue with a small limit and Jobs do not
	// override the policy: long queues whose head is often deleted (C06 queue).
	enqueueHeavy bool
}

func genE2Setup(t *rapid.T, p e2Profile) *E2Trace {
	tr := &E2Trace{Profile: p.name}
	tr.Start = time.Date(2032, 3, 4, 5, 6, 7, 0, time.UTC).Add(time.Duration(rapid.IntRange(0, 59).Draw(t, "startsec")) * time.Second).UnixMilli()
	tr.Cfg = E2Cfg{
		PendingDefault: optInt64(t, "cfgPending", 0, 30, 900),
		ForceDelete:    optInt64(t, "cfgForce", 0, 20, 900),
		TTLDefault:     optInt64(t, "cfgTTL", 0, 60, 3600),
		MaxEnqueued:    optInt64(t, "cfgMaxEnq", 2, 20),
	}
	if p.forceHeavy {
		tr.Cfg.ForceDelete = optInt64(t, "fhForce", 10, 20)
		if tr.Cfg.ForceDelete == nil {
			v := int64(20)
			tr.Cfg.ForceDelete = &v
		}
	}
	if rapid.Bool().Draw(t, "permuteLists") {
		tr.ListSalt = rapid.Uint64Range(1, 1<<40).Draw(t, "listSalt")
	}
	if p.confluent {
		one := int64(1)
		tr.Cfg.MaxEnqueued, tr.Cfg.MaxMissed = nil, &one
	}
	n := rapid.IntRange(1, p.maxJCs).Draw(t, "njc")
	for i := 0; i < n; i++ {
		j := E2JC{Name: fmt.Sprintf("jc%d", i), Policy: rapid.SampledFrom([]string{"Allow", "Forbid", "Enqueue", "Enqueue"}).Draw(t, "policy")}
		if j.Policy != "Allow" {
			j.MaxConc = optInt64(t, "maxConc", 1, 2, 3)
		}
		switch rapid.SampledFrom([]string{"", "", "count", "keys", "matrix"}).Draw(t, "parKind") {
		case "count":
			j.ParKind, j.ParN = "count", rapid.IntRange(1, 4).Draw(t, "parN")
		case "keys":
			j.ParKind, j.ParN = "keys", rapid.IntRange(1, 3).Draw(t, "parN")
		case "matrix":
			j.ParKind, j.ParN = "matrix", rapid.SampledFrom([]int{2, 4}).Draw(t, "parN")
		}
		if j.ParKind != "" {
			j.Strategy = rapid.SampledFrom([]string{"", "AllSuccessful", "AnySuccessful"}).Draw(t, "strategy")
		}
		j.MaxAttempts = optInt64(t, "maxAttempts", 1, 2, 3, 5)
		j.RetryDelay = optInt64(t, "retryDelay", 0, 5, 60, 120)
		j.PendingTimeout = optInt64(t, "pendingTimeout", 0, 20, 600)
		j.ForbidForce = rapid.IntRange(0, 5).Draw(t, "forbidForce") == 0
		if p.retryHeavy {
			j.ParKind, j.ParN = rapid.SampledFrom([]string{"count", "keys"}).Draw(t, "rhKind"), rapid.IntRange(2, 3).Draw(t, "rhN")
			j.Strategy = rapid.SampledFrom([]string{"", "AllSuccessful", "AnySuccessful"}).Draw(t, "rhStrategy")
			j.MaxAttempts = optInt64(t, "rhAttempts", 2, 3, 5)
			if j.MaxAttempts == nil {
				three := int64(3)
				j.MaxAttempts = &three
			}
			j.RetryDelay = optInt64(t, "rhDelay", 5, 60, 120)
			if j.RetryDelay == nil {
				d := int64(60)
				j.RetryDelay = &d
			}
			j.PendingTimeout = nil
		}
		if p.forceHeavy {
			j.ForbidForce = rapid.IntRange(0, 2).Draw(t, "fhForbid") == 0
			j.PendingTimeout = nil
		}
		if p.enqueueHeavy {
			j.Policy = "Enqueue"
			j.MaxConc = optInt64(t, "ehMaxConc", 1, 1, 2)
			j.ParKind, j.ParN, j.Strategy = "", 0, ""
		}
		if p.foreignHeavy {
			j.ParKind, j.ParN = rapid.SampledFrom([]string{"count", "keys"}).Draw(t, "fhKind"), rapid.IntRange(2, 3).Draw(t, "fhN")
			j.Strategy = rapid.SampledFrom([]string{"", "AllSuccessful", "AnySuccessful"}).Draw(t, "fhStrategy")
		}
		if p.reapHeavy {
			twenty := int64(20)
			j.PendingTimeout = &twenty
			j.MaxAttempts = optInt64(t, "rpAttempts", 2, 3)
			if j.MaxAttempts == nil {
				two := int64(2)
				j.MaxAttempts = &two
			}
			j.RetryDelay = optInt64(t, "rpDelay", 0, 5)
		}
		j.TTL = optInt64(t, "ttl", 0, 30, 3600)
		j.TemplateMeta = rapid.IntRange(0, 3).Draw(t, "templateMeta") == 0
		if j.TemplateMeta {
			j.TemplateMetaKind = rapid.SampledFrom([]string{"", "ann", "ann", "label"}).Draw(t, "templateMetaKind")
		}
		j.RestartOnFailure = rapid.IntRange(0, 3).Draw(t, "restartOnFailure") == 0 || p.restartHeavy
		if p.cron && rapid.IntRange(0, 2).Draw(t, "cron?") != 0 {
			j.Cron = rapid.SampledFrom([]string{"* * * * *", "*/2 * * * *", "*/20 * * * * * *", "0,30 * * * * * *"}).Draw(t, "cron")
			if p.confluent && j.Policy == "Forbid" {
				j.Policy = "Enqueue"
			}
		}
		tr.JCs = append(tr.JCs, j)
	}
	return tr
}

type livePod struct {
	key string
	pod *corev1.Pod
}

// genE2Ops generates ops against a live simulation so that every drawn op is
// enabled; the concrete arguments are recorded, the run re-executes them on a
// fresh world with the monitors on.
func genE2Ops(t *rapid.T, tr *E2Trace, p e2Profile) {
	genOpsOn(t, newE2Run(tr, false), tr, p, 0)
}

// genOpsOn continues generating on an existing live run; the drawn ops are
// appended to tr and applied to r.
func genOpsOn(t *rapid.T, r *e2run, tr *E2Trace, p e2Profile, _ int) {
	w := r.w
	createdFor := map[string]bool{} // confluent: JobConfigs that got a Job in this call (= phase)
	ticked := false
	if p.confluent {
		op := E2Op{K: "advance", D: int64(rapid.SampledFrom([]int{1000, 1000, 2000, 5000, 20000, 30000, 60000, 61000, 120000, 600000, 3600000}).Draw(t, "phaseAdv"))}
		tr.Ops = append(tr.Ops, op)
		r.apply(op)
	}
	for step := 0; step < p.steps; step++ {
		type cand struct {
			w  int
			op func() E2Op
		}
		var cs []cand
		add := func(kind string, base int, f func() E2Op) {
			wt := base
			if v, ok := p.weights[kind]; ok {
				wt = v
			}
			if wt > 0 {
				cs = append(cs, cand{wt, f})
			}
		}
		jobs := w.API.Jobs()
		pods := w.API.Pods()
		jcs := w.API.JobConfigs()
		maxJobs := p.maxJobs
		if maxJobs == 0 {
			maxJobs = 8
		}
		if r.nJobs < maxJobs+4 && len(jobs) < maxJobs {
			add("createJob", 6, func() E2Op {
				op := E2Op{K: "createJob", N: r.nJobs}
				cands := jcs
				if p.confluent {
					cands = nil
					for _, jc := range jcs {
						idle := true
						for _, j := range jobs {
							if ref := metav1.GetControllerOf(j); ref != nil && ref.UID == jc.UID && !terminalPhase(j.Status.Phase) {
								idle = false
							}
						}
						forbid := jc.Spec.Concurrency.Policy == execution.ConcurrencyPolicyForbid
						if jc.Spec.Schedule == nil && !createdFor[jc.Name] && jc.DeletionTimestamp == nil && (!forbid || idle) {
							cands = append(cands, jc)
						}
					}
				}
				if len(cands) > 0 && rapid.IntRange(0, 4).Draw(t, "owned") != 0 {
					op.A = rapid.SampledFrom(cands).Draw(t, "jc").Name
					if !p.confluent && !p.enqueueHeavy {
						op.B = rapid.SampledFrom([]string{"", "", "Allow", "Forbid", "Enqueue"}).Draw(t, "jobpolicy")
					}
					createdFor[op.A] = true
				}
				if rapid.IntRange(0, 2).Draw(t, "startAfter?") == 0 {
					op.D = int64(rapid.SampledFrom([]int{-5, 1, 2, 10, 60, 300}).Draw(t, "startAfter"))
				}
				if !p.confluent && rapid.IntRange(0, 5).Draw(t, "foreignFinalizer?") == 0 {
					op.X = "finalizer"
				}
				r.nJobs++
				return op
			})
		}
		var liveJobs []*execution.Job
		for _, j := range jobs {
			if j.DeletionTimestamp == nil {
				liveJobs = append(liveJobs, j)
			}
		}
		var withForeign []*execution.Job
		for _, j := range jobs {
			for _, f := range j.Finalizers {
				if f == foreignFinalizer {
					withForeign = append(withForeign, j)
				}
			}
		}
		if len(withForeign) > 0 {
			add("releaseFinalizer", 3, func() E2Op {
				return E2Op{K: "releaseFinalizer", A: keyOf(rapid.SampledFrom(withForeign).Draw(t, "relfin"))}
			})
		}
		if len(liveJobs) > 0 {
			add("kill", 2, func() E2Op {
				return E2Op{K: "kill", A: keyOf(rapid.SampledFrom(liveJobs).Draw(t, "killjob")), D: int64(rapid.SampledFrom([]int{0, 0, -1, 3, 30}).Draw(t, "killoff"))}
			})
			add("deleteJob", 2, func() E2Op { return E2Op{K: "deleteJob", A: keyOf(rapid.SampledFrom(liveJobs).Draw(t, "deljob"))} })
		}
		var alivePods, schedulable, runnable, running, terminating, flapped []*corev1.Pod
		var termRunnable, termRunning []*corev1.Pod // terminating, but the container start / exit races the deletion
		for _, pd := range pods {
			if pd.DeletionTimestamp != nil {
				terminating = append(terminating, pd)
				switch {
				case pd.Spec.NodeName != "" && pd.Status.Phase == corev1.PodPending:
					termRunnable = append(termRunnable, pd)
				case pd.Status.Phase == corev1.PodRunning && len(pd.Status.ContainerStatuses) > 0:
					termRunning = append(termRunning, pd)
				}
				continue
			}
			alivePods = append(alivePods, pd)
			switch {
			case pd.Spec.NodeName == "":
				schedulable = append(schedulable, pd)
			case pd.Status.Phase == corev1.PodPending && pd.Status.StartTime != nil:
				flapped = append(flapped, pd) // was running, reports Pending without containers for now
			case pd.Status.Phase == corev1.PodPending:
				runnable = append(runnable, pd)
			case pd.Status.Phase == corev1.PodRunning && len(pd.Status.ContainerStatuses) == 0:
				flapped = append(flapped, pd)
			case pd.Status.Phase == corev1.PodRunning:
				running = append(running, pd)
			}
		}
		kub := func(kind string, base int, list []*corev1.Pod, action func() string) {
			if len(list) > 0 {
				add(kind, base, func() E2Op {
					return E2Op{K: "kubelet", A: keyOf(rapid.SampledFrom(list).Draw(t, "pod")), B: action()}
				})
			}
		}
		kub("k-schedule", 8, schedulable, func() string { return "schedule" })
		kub("k-run", 8, runnable, func() string { return "run" })
		kub("k-finish", 8, running, func() string {
			if p.retryHeavy {
				return rapid.SampledFrom([]string{"fail", "fail", "fail", "oom", "succeed"}).Draw(t, "outcome")
			}
			return rapid.SampledFrom([]string{"succeed", "succeed", "fail", "fail", "oom"}).Draw(t, "outcome")
		})
		kub("k-run-terminating", 2, termRunnable, func() string { return "run" })
		kub("k-finish-terminating", 3, termRunning, func() string {
			return rapid.SampledFrom([]string{"succeed", "fail", "fail"}).Draw(t, "outcome")
		})
		kub("k-flap", 1, running, func() string { return rapid.SampledFrom([]string{"flap", "flap-pending"}).Draw(t, "flapKind") })
		var restartable []*corev1.Pod
		for _, pd := range running {
			if pd.Spec.RestartPolicy == corev1.RestartPolicyOnFailure {
				restartable = append(restartable, pd)
			}
		}
		kub("k-restart", 3, restartable, func() string { return rapid.SampledFrom([]string{"restart", "restart-oom"}).Draw(t, "restartKind") })
		kub("k-unflap", 4, flapped, func() string { return "unflap" })
		kub("k-terminate", 6, terminating, func() string { return "terminate" })
		// Owner references are only ever stripped by the garbage collector, for the
		// dependents of an owner that is being deleted with orphan propagation.
		var orphanable []*corev1.Pod
		for _, pd := range pods {
			if ref := metav1.GetControllerOf(pd); ref != nil {
				for _, j := range jobs {
					if j.UID == ref.UID && j.DeletionTimestamp != nil {
						orphanable = append(orphanable, pd)
					}
				}
			}
		}
		if len(orphanable) > 0 && !p.confluent {
			add("orphanPod", 3, func() E2Op { return E2Op{K: "orphanPod", A: keyOf(rapid.SampledFrom(orphanable).Draw(t, "orphanpod"))} })
		}
		if len(alivePods) > 0 {
			add("deletePod", 1, func() E2Op { return E2Op{K: "deletePod", A: keyOf(rapid.SampledFrom(alivePods).Draw(t, "delpod"))} })
		}
		add("advance", 6, func() E2Op {
			if p.reapHeavy { // steps around the pending timeout (20 s)
				return E2Op{K: "advance", D: int64(rapid.SampledFrom([]int{1000, 5000, 19000, 20000, 21000, 25000, 30000, 60000}).Draw(t, "adv"))}
			}
			if p.forceHeavy { // steps around deletion grace period (30 s) + force-delete timeout (10-20 s)
				return E2Op{K: "advance", D: int64(rapid.SampledFrom([]int{1000, 5000, 20000, 30000, 31000, 39000, 40000, 41000, 49000, 50000, 51000, 60000, 120000}).Draw(t, "adv"))}
			}
			if p.retryHeavy { // steps around the retry delays, so that one index is due and another not yet
				return E2Op{K: "advance", D: int64(rapid.SampledFrom([]int{1000, 2000, 3000, 5000, 20000, 30000, 31000, 59000, 60000, 61000, 90000, 120000}).Draw(t, "adv"))}
			}
			return E2Op{K: "advance", D: int64(rapid.SampledFrom([]int{1, 500, 1000, 1000, 2000, 5000, 20000, 30000, 60000, 61000, 120000, 600000, 3600000}).Draw(t, "adv"))}
		})
		if p.cron && !(p.confluent && ticked) {
			add("tick", 6, func() E2Op { ticked = true; return E2Op{K: "tick"} })
			if len(w.Requests) > 0 {
				add("requeueCron", 2, func() E2Op {
					q := w.Requests[rapid.IntRange(0, len(w.Requests)-1).Draw(t, "oldreq")]
					return E2Op{K: "requeueCron", A: fmt.Sprintf("%s.%d", q.Key, q.Time.Unix())}
				})
			}
		}
		add("settle", 10, func() E2Op { return E2Op{K: "settle"} })
		if p.lag {
			for _, res := range sim.AllRes {
				res := res
				for _, set := range []string{"ctrl", "hook"} {
					set := set
					if len(w.API.Pending[set][res]) > 0 {
						add("deliver", 5, func() E2Op {
							return E2Op{K: "deliver", A: string(res), B: set, N: rapid.IntRange(0, 3).Draw(t, "ndeliver")}
						})
					}
				}
			}
			if w.Alive {
				for _, q := range w.Queues() {
					q := q
					if q.Len() > 0 {
						add("step", 6, func() E2Op { return E2Op{K: "step", A: q.Name} })
					}
				}
			}
			add("resync", 1, func() E2Op { return E2Op{K: "resync", A: string(rapid.SampledFrom(sim.AllRes).Draw(t, "resyncres"))} })
			add("settleLag", 3, func() E2Op { return E2Op{K: "settleLag", A: string(rapid.SampledFrom(sim.AllRes).Draw(t, "lagres"))} })
			if w.Alive && w.Mid == nil {
				add("midDeliver", 4, func() E2Op {
					return E2Op{K: "midDeliver", A: string(rapid.SampledFrom(sim.AllRes).Draw(t, "midres")), N: rapid.IntRange(1, 4).Draw(t, "midAt"), D: int64(rapid.IntRange(0, 2).Draw(t, "midCount"))}
				})
			}
		}
		if p.crashes && w.Alive {
			add("restart", 1, func() E2Op {
				return E2Op{K: "restart", A: rapid.SampledFrom([]string{"", "", "jobs,jobconfigs,pods", "jobs,pods,jobconfigs", "pods,jobs,jobconfigs", "pods,jobconfigs,jobs", "jobconfigs,pods,jobs"}).Draw(t, "listOrder")}
			})
			add("crash", 1, func() E2Op {
				return E2Op{K: "crash", C: &sim.CrashPlan{AtCall: rapid.IntRange(1, 4).Draw(t, "crashAt"), AfterApply: rapid.Bool().Draw(t, "crashAfter")}}
			})
		}
		if p.foreignPods {
			var targets []*execution.Job
			for _, j := range liveJobs {
				if !terminalPhase(j.Status.Phase) && j.Spec.KillTimestamp == nil {
					targets = append(targets, j)
				}
			}
			if len(targets) > 0 {
				add("plantPod", 2, func() E2Op {
					j := rapid.SampledFrom(targets).Draw(t, "plantjob")
					hs := indexHashes(j)
					h := rapid.SampledFrom(hs).Draw(t, "planthash")
					n := 0
					for _, tr := range j.Status.Tasks {
						if strings.HasPrefix(tr.Name, j.Name+"-"+h+"-") {
							n++
						}
					}
					return E2Op{K: "plantPod", A: fmt.Sprintf("%s/%s-%s-%d", j.Namespace, j.Name, h, n),
						B: rapid.SampledFrom([]string{"none", "other", "stale-job"}).Draw(t, "plantowner"), F: &sim.Fault{Name: j.Name}}
				})
			}
		}
		if p.faults && len(w.API.Faults) < 4 {
			add("fault", 3, func() E2Op {
				actors := []string{"", "job", "job", "jobqueue", "jobconfig", "cron"}
				verbs := []string{"", "create", "update", "updateStatus", "delete"}
				if p.foreignHeavy {
					actors = []string{"job"}
					verbs = []string{"updateStatus", "updateStatus", "updateStatus", "update", "create"}
				}
				f := &sim.Fault{
					Actor: rapid.SampledFrom(actors).Draw(t, "factor"),
					Verb:  rapid.SampledFrom(verbs).Draw(t, "fverb"),
					Nth:   rapid.IntRange(1, 3).Draw(t, "fnth"), Count: rapid.IntRange(1, 3).Draw(t, "fcount"),
					Kind: rapid.SampledFrom([]sim.FaultKind{sim.FaultReject, sim.FaultTimeout, sim.FaultConflict, sim.FaultCommitTimeout}).Draw(t, "fkind"),
				}
				// Excluded by construction (open finding E2-start-commit-timeout in
				// known-findings.json): a start write that commits but is reported as failed.
				// The exclusion is counted by the run.
				if f.Kind == sim.FaultCommitTimeout && (f.Actor == "" || f.Actor == "jobqueue") && (f.Verb == "" || f.Verb == "updateStatus") {
					f.Actor = "job"
					f.Name = "excluded"
				}
				return E2Op{K: "fault", F: f}
			})
		}
		if !w.Alive {
			cs = []cand{{1, func() E2Op { return E2Op{K: "restart"} }}}
		}
		total := 0
		for _, c := range cs {
			total += c.w
		}
		pick := rapid.IntRange(0, total-1).Draw(t, "op")
		var op E2Op
		for _, c := range cs {
			if pick < c.w {
				op = c.op()
				break
			}
			pick -= c.w
		}
		tr.Ops = append(tr.Ops, op)
		r.apply(op)
	}
}

func sortedLabels(m map[string]bool) []string {
	out := make([]string, 0, len(m))
	for k := range m {
		out = append(out, k)
	}
	sort.Strings(out)
	return out
}

// runE2 re-executes a trace with the monitors on and returns the result of
// the selected property's oracles (props == nil: all).
func runE2(tr E2Trace, props map[string]bool) pbt.Result {
	r := newE2Run(&tr, true)
	r.mon.props = props
	debug := os.Getenv("VERIF_DEBUG") != ""
	if debug {
		sim.DebugDeliver = func(typ, key string, old interface{}, obj runtime.Object) {
			if j, ok := obj.(*execution.Job); ok {
				fmt.Printf("      deliver %s job %s rv=%s phase=%s start=%v (had=%v) counter=%v\n", typ, key, j.ResourceVersion, j.Status.Phase, j.Status.StartTime != nil, old != nil, func() int64 {
					if r.w.Store == nil || len(r.w.API.JobConfigs()) == 0 {
						return -1
					}
					return r.w.Store.CountActiveJobsForConfig(r.w.API.JobConfigs()[0])
				}())
			}
		}
		defer func() { sim.DebugDeliver = nil }()
		b, _ := json.Marshal(tr.JCs)
		fmt.Printf("SETUP cfg=%+v\n jcs=%s\n", tr.Cfg, b)
		r.w.API.OnEntry = append(r.w.API.OnEntry, func(e *sim.Entry) {
			fmt.Printf("      ledger %s %s %s %s applied=%v removed=%v force=%v err=%.80s\n", e.Actor, e.Verb, e.Res, e.Key, e.Applied, e.Removed, e.Force, e.Err)
			if j, ok := e.After.(*execution.Job); ok && e.Applied && e.Actor != "user" {
				b, _ := json.Marshal(j.Status)
				fmt.Printf("        -> rv=%s status=%s\n", j.ResourceVersion, b)
			}
		})
	}
	for i, op := range tr.Ops {
		r.mon.opIndex = i
		if debug {
			b, _ := json.Marshal(op)
			fmt.Printf("OP %d %s  (clock %s)\n", i, b, r.w.Clock.Now().UTC().Format("15:04:05.000"))
		}
		r.apply(op)
		if debug {
			r.dump()
		}
		r.mon.afterStep()
		if r.mon.first() != nil {
			break
		}
	}
	if r.mon.first() == nil {
		if debug {
			fmt.Println("FINALE")
		}
		r.mon.finale()
		if debug {
			r.dump()
		}
	}
	if r.w.MidDelivered > 0 {
		r.label("mid-reconcile-delivery")
	}
	res := pbt.Result{Labels: append(sortedLabels(r.labels), sortedLabels(r.mon.labels)...), Excluded: r.excluded, Violation: r.mon.first()}
	res.Extra = map[string]int{"steps": r.w.Steps, "ledger": len(r.w.API.Ledger)}
	return res
}

func (r *e2run) dump() {
	for _, j := range r.w.API.Jobs() {
		var ts []string
		for _, t := range j.Status.Tasks {
			ts = append(ts, fmt.Sprintf("%s[%s/%s fin=%v del=%v]", t.Name, t.Status.State, t.Status.Result, t.FinishTimestamp != nil, t.DeletedStatus != nil))
		}
		fmt.Printf("      job %s rv=%s phase=%s start=%v kill=%v del=%v admErr=%v tasks=%v\n", j.Name, j.ResourceVersion, j.Status.Phase, j.Status.StartTime != nil, j.Spec.KillTimestamp, j.DeletionTimestamp != nil, hasAdmErr(j), ts)
	}
	for _, p := range r.w.API.Pods() {
		fmt.Printf("      pod %s phase=%q node=%q del=%v\n", p.Name, p.Status.Phase, p.Spec.NodeName, p.DeletionTimestamp != nil)
	}
	if r.w.Store != nil {
		for _, jc := range r.w.API.JobConfigs() {
			fmt.Printf("      counter %s=%d\n", jc.Name, r.w.Store.CountActiveJobsForConfig(jc))
		}
	}
	for _, j := range r.mon.ctrlCachedJobs() {
		fmt.Printf("      ctrl-cache job %s rv=%s phase=%s start=%v\n", j.Name, j.ResourceVersion, j.Status.Phase, j.Status.StartTime != nil)
	}
	var qs []string
	if r.w.Alive {
		for _, q := range r.w.Queues() {
			qs = append(qs, fmt.Sprintf("%s=%v", q.Name, q.Keys()))
		}
	}
	fmt.Printf("      queues %v pending ctrl=%d hook=%d\n", qs, r.w.PendingCount("ctrl"), r.w.PendingCount("hook"))
}
