//go:build verif

package sim

import (
	"encoding/json"
	"fmt"
	"sort"
	"strconv"
	"sync"
	"time"

	corev1 "k8s.io/api/core/v1"
	kerrors "k8s.io/apimachinery/pkg/api/errors"
	"k8s.io/apimachinery/pkg/api/meta"
	metav1 "k8s.io/apimachinery/pkg/apis/meta/v1"
	"k8s.io/apimachinery/pkg/runtime"
	"k8s.io/apimachinery/pkg/runtime/schema"
	"k8s.io/apimachinery/pkg/types"
	ktesting "k8s.io/client-go/testing"
	"k8s.io/utils/clock"

	execution "github.com/furiko-io/furiko/apis/execution/v1alpha1"
)

func sortStrings(s []string) { sort.Strings(s) }

// Res names a resource of the simulated API server.
type Res string

const (
	ResJobs       Res = "jobs"
	ResJobConfigs Res = "jobconfigs"
	ResPods       Res = "pods"
)

var AllRes = []Res{ResJobConfigs, ResJobs, ResPods}

func groupResource(r Res) schema.GroupResource {
	if r == ResPods {
		return schema.GroupResource{Resource: "pods"}
	}
	return schema.GroupResource{Group: "execution.furiko.io", Resource: string(r)}
}

// WatchEvent is one event of a resource's watch stream.
type WatchEvent struct {
	Seq  int
	Res  Res
	Type string // ADDED | MODIFIED | DELETED
	Obj  runtime.Object
}

// Entry is one record of the API server's ledger: every call made by any
// component, with what it changed. All safety monitors read this.
type Entry struct {
	Seq     int
	Time    time.Time
	Actor   string
	Verb    string // create | update | updateStatus | delete
	Res     Res
	Key     string // namespace/name
	Before  runtime.Object
	After   runtime.Object // nil if the object left the store
	Removed bool           // the object left the store with this call
	Force   bool           // delete with grace period 0
	Applied bool           // the store changed
	Err     string         // error returned to the caller ("" = success)
	Fault   string         // injected fault kind, if any
}

// FaultKind is a class of injected API failure.
type FaultKind string

const (
	FaultReject        FaultKind = "reject"         // 500, not applied
	FaultTimeout       FaultKind = "timeout"        // timeout, not applied
	FaultConflict      FaultKind = "conflict"       // 409, not applied
	FaultCommitTimeout FaultKind = "commit-timeout" // applied, but reported as a timeout
	FaultExists        FaultKind = "exists"         // AlreadyExists, not applied
	FaultInvalid       FaultKind = "invalid"        // 422, not applied
	FaultCrashBefore   FaultKind = "crash-before"   // the process dies instead of making this call
	FaultCrashAfter    FaultKind = "crash-after"    // the call is applied, then the process dies
)

// Fault attaches a failure to API calls by signature and occurrence number, so
// that concurrent calls of one reconcile stay deterministic. Empty fields match
// anything.
type Fault struct {
	Actor string    `json:"actor,omitempty"`
	Verb  string    `json:"verb,omitempty"` // create|update|updateStatus|delete
	Res   Res       `json:"res,omitempty"`
	Name  string    `json:"name,omitempty"`
	Nth   int       `json:"nth"`   // first matching call that fails (1-based)
	Count int       `json:"count"` // number of consecutive matching calls that fail
	Kind  FaultKind `json:"kind"`
	seen  int
	Hits  int `json:"-"`
}

func (f *Fault) matches(actor, verb string, res Res, name string) bool {
	actorOK := f.Actor == "" || f.Actor == actor ||
		(f.Actor == "controllers" && (actor == "job" || actor == "jobqueue" || actor == "jobconfig" || actor == "cron"))
	return actorOK && (f.Verb == "" || f.Verb == verb) && (f.Res == "" || f.Res == res) && (f.Name == "" || f.Name == name)
}

// CrashPlan kills the acting process at its k-th API call of the current step.
type CrashPlan struct {
	AtCall     int  // 1-based index among the write calls of the step
	AfterApply bool // the call is applied before the process dies
}

var errProcessGone = fmt.Errorf("simulated crash: process is gone")

// API is the authoritative store with the semantics furiko relies on: unique
// names, UIDs, second-granular creation time, per-object resourceVersion with
// optimistic concurrency, status subresource, finalizers and graceful Pod
// deletion, admission through the real webhooks.
type API struct {
	mu      sync.Mutex
	Clock   clock.PassiveClock
	objs    map[Res]map[string]runtime.Object
	uidSeq  int
	seq     int
	Ledger  []*Entry
	Pending map[string]map[Res][]WatchEvent // cache set -> resource -> undelivered events
	Sets    []string

	Actor string
	// Admit runs the admission chain for create/update of Jobs and JobConfigs.
	Admit func(res Res, op string, old, obj runtime.Object) (runtime.Object, error)
	// OnEntry observers are called for every ledger entry (after apply).
	OnEntry []func(*Entry)

	Faults       []*Fault
	Crash        *CrashPlan
	Crashed      bool
	inCallback   bool
	callsInStep  int
	MidHook      func() // called before every controller create/update, outside the lock
	stepEventIdx map[string]map[Res]int // start of the current step in each pending list
	EverCreated  map[Res]map[string]int // key -> number of successful creates
}

func NewAPI(c clock.PassiveClock, cacheSets ...string) *API {
	a := &API{Clock: c, objs: map[Res]map[string]runtime.Object{}, Pending: map[string]map[Res][]WatchEvent{}, Sets: cacheSets,
		EverCreated: map[Res]map[string]int{}}
	for _, r := range AllRes {
		a.objs[r] = map[string]runtime.Object{}
		a.EverCreated[r] = map[string]int{}
	}
	for _, s := range cacheSets {
		a.Pending[s] = map[Res][]WatchEvent{}
	}
	return a
}

func Key(ns, name string) string { return ns + "/" + name }

func newOf(r Res) runtime.Object {
	switch r {
	case ResJobs:
		return &execution.Job{}
	case ResJobConfigs:
		return &execution.JobConfig{}
	default:
		return &corev1.Pod{}
	}
}

// normalize round-trips through JSON, as a real API server's storage does:
// times become second-granular, nothing else changes.
func normalize(r Res, obj runtime.Object) runtime.Object {
	b, err := json.Marshal(obj)
	if err != nil {
		panic(err)
	}
	out := newOf(r)
	if err := json.Unmarshal(b, out); err != nil {
		panic(err)
	}
	return out
}

func (a *API) emit(r Res, typ string, obj runtime.Object) {
	a.seq++
	for _, s := range a.Sets {
		a.Pending[s][r] = append(a.Pending[s][r], WatchEvent{Seq: a.seq, Res: r, Type: typ, Obj: obj.DeepCopyObject()})
	}
}

func (a *API) record(e *Entry) {
	a.seq++
	e.Seq = a.seq
	e.Time = a.Clock.Now()
	a.Ledger = append(a.Ledger, e)
	// Observers run synchronously while the store lock is held, so that they see
	// the store exactly as it is after this entry; Get/List skip locking meanwhile
	// (every other goroutine is blocked on the lock in React).
	a.inCallback = true
	for _, f := range a.OnEntry {
		f(e)
	}
	a.inCallback = false
}

// Get returns a copy of the stored object or nil.
func (a *API) Get(r Res, key string) runtime.Object {
	if !a.inCallback {
		a.mu.Lock()
		defer a.mu.Unlock()
	}
	if o, ok := a.objs[r][key]; ok {
		return o.DeepCopyObject()
	}
	return nil
}

// List returns copies of all stored objects of a resource, sorted by key.
func (a *API) List(r Res) []runtime.Object {
	if !a.inCallback {
		a.mu.Lock()
		defer a.mu.Unlock()
	}
	keys := make([]string, 0, len(a.objs[r]))
	for k := range a.objs[r] {
		keys = append(keys, k)
	}
	sort.Strings(keys)
	out := make([]runtime.Object, 0, len(keys))
	for _, k := range keys {
		out = append(out, a.objs[r][k].DeepCopyObject())
	}
	return out
}

func (a *API) Jobs() []*execution.Job {
	var out []*execution.Job
	for _, o := range a.List(ResJobs) {
		out = append(out, o.(*execution.Job))
	}
	return out
}
func (a *API) JobConfigs() []*execution.JobConfig {
	var out []*execution.JobConfig
	for _, o := range a.List(ResJobConfigs) {
		out = append(out, o.(*execution.JobConfig))
	}
	return out
}
func (a *API) Pods() []*corev1.Pod {
	var out []*corev1.Pod
	for _, o := range a.List(ResPods) {
		out = append(out, o.(*corev1.Pod))
	}
	return out
}

func bumpRV(acc metav1.Object) {
	n, _ := strconv.Atoi(acc.GetResourceVersion())
	acc.SetResourceVersion(strconv.Itoa(n + 1))
}

// ---- fault / crash gate, evaluated for every write call made through a clientset ----

type gate struct {
	fault      FaultKind
	dieBefore  bool
	dieAfter   bool
	processErr error
}

func (a *API) enter(verb string, r Res, name string) gate {
	var g gate
	if a.Crashed {
		g.processErr = errProcessGone
		return g
	}
	a.callsInStep++
	if a.Crash != nil && a.callsInStep == a.Crash.AtCall {
		if a.Crash.AfterApply {
			g.dieAfter = true
		} else {
			g.dieBefore = true
			a.Crashed = true
			g.processErr = errProcessGone
			return g
		}
	}
	for _, f := range a.Faults {
		if f.matches(a.Actor, verb, r, name) {
			f.seen++
			if f.seen >= f.Nth && f.seen < f.Nth+f.Count && g.fault == "" {
				f.Hits++
				switch f.Kind {
				case FaultCrashBefore:
					a.Crashed = true
					g.processErr = errProcessGone
					return g
				case FaultCrashAfter:
					g.dieAfter = true
				default:
					g.fault = f.Kind
				}
			}
		}
	}
	return g
}

func faultErr(k FaultKind, r Res, name string) error {
	gr := groupResource(r)
	switch k {
	case FaultReject:
		return kerrors.NewInternalError(fmt.Errorf("injected server error"))
	case FaultTimeout, FaultCommitTimeout:
		return kerrors.NewTimeoutError("injected timeout", 1)
	case FaultConflict:
		return kerrors.NewConflict(gr, name, fmt.Errorf("injected conflict"))
	case FaultExists:
		return kerrors.NewAlreadyExists(gr, name)
	case FaultInvalid:
		return kerrors.NewInvalid(schema.GroupKind{Group: gr.Group, Kind: string(r)}, name, nil)
	}
	return nil
}

// ---- core verbs (no faults); used directly by the user and kubelet models ----

// Create stores a new object.
func (a *API) Create(r Res, in runtime.Object) (runtime.Object, error) {
	a.mu.Lock()
	defer a.mu.Unlock()
	return a.create(r, in, "")
}

func (a *API) create(r Res, in runtime.Object, fault string) (runtime.Object, error) {
	obj := in.DeepCopyObject()
	acc, _ := meta.Accessor(obj)
	if acc.GetNamespace() == "" {
		acc.SetNamespace("default")
	}
	k := Key(acc.GetNamespace(), acc.GetName())
	e := &Entry{Actor: a.Actor, Verb: "create", Res: r, Key: k, Fault: fault}
	if _, ok := a.objs[r][k]; ok {
		err := kerrors.NewAlreadyExists(groupResource(r), acc.GetName())
		e.Err = err.Error()
		a.record(e)
		return nil, err
	}
	// Server-managed metadata is set before admission, as the real API server does.
	acc.SetUID("")
	acc.SetResourceVersion("")
	acc.SetDeletionTimestamp(nil)
	acc.SetCreationTimestamp(metav1.NewTime(a.Clock.Now().Truncate(time.Second)))
	if a.Admit != nil && r != ResPods {
		mutated, err := a.Admit(r, "CREATE", nil, obj)
		if err != nil {
			e.Err = err.Error()
			a.record(e)
			return nil, err
		}
		obj = mutated
		acc, _ = meta.Accessor(obj)
	}
	a.uidSeq++
	acc.SetUID(types.UID(fmt.Sprintf("uid-%s-%d", r, a.uidSeq)))
	acc.SetResourceVersion("1")
	obj = normalize(r, obj)
	a.objs[r][k] = obj
	a.EverCreated[r][k]++
	a.emit(r, "ADDED", obj)
	e.After = obj.DeepCopyObject()
	e.Applied = true
	a.record(e)
	return obj.DeepCopyObject(), nil
}

// Update replaces spec+metadata (sub == "") or status (sub == "status").
func (a *API) Update(r Res, in runtime.Object, sub string) (runtime.Object, error) {
	a.mu.Lock()
	defer a.mu.Unlock()
	return a.update(r, in, sub, "")
}

func (a *API) update(r Res, in runtime.Object, sub string, fault string) (runtime.Object, error) {
	obj := in.DeepCopyObject()
	acc, _ := meta.Accessor(obj)
	k := Key(acc.GetNamespace(), acc.GetName())
	verb := "update"
	if sub == "status" {
		verb = "updateStatus"
	}
	e := &Entry{Actor: a.Actor, Verb: verb, Res: r, Key: k, Fault: fault}
	cur, ok := a.objs[r][k]
	if !ok {
		err := kerrors.NewNotFound(groupResource(r), acc.GetName())
		e.Err = err.Error()
		a.record(e)
		return nil, err
	}
	e.Before = cur.DeepCopyObject()
	curAcc, _ := meta.Accessor(cur)
	if rv := acc.GetResourceVersion(); rv != "" && rv != curAcc.GetResourceVersion() {
		err := kerrors.NewConflict(groupResource(r), acc.GetName(), fmt.Errorf("the object has been modified; please apply your changes to the latest version and try again"))
		e.Err = err.Error()
		a.record(e)
		return nil, err
	}
	if uid := acc.GetUID(); uid != "" && uid != curAcc.GetUID() {
		err := kerrors.NewConflict(groupResource(r), acc.GetName(), fmt.Errorf("uid precondition failed"))
		e.Err = err.Error()
		a.record(e)
		return nil, err
	}
	merged := mergeSubresource(cur, obj, sub)
	if a.Admit != nil && r != ResPods && sub == "" {
		mutated, err := a.Admit(r, "UPDATE", cur.DeepCopyObject(), merged)
		if err != nil {
			e.Err = err.Error()
			a.record(e)
			return nil, err
		}
		// server-managed fields cannot be changed by admission either
		merged = mergeSubresource(cur, mutated, sub)
	}
	merged = normalize(r, merged)
	mAcc, _ := meta.Accessor(merged)
	mAcc.SetResourceVersion(curAcc.GetResourceVersion())
	if jsonEqual(cur, merged) {
		// no-op update: no new version, no event
		e.After = cur.DeepCopyObject()
		a.record(e)
		return cur.DeepCopyObject(), nil
	}
	bumpRV(mAcc)
	e.Applied = true
	if mAcc.GetDeletionTimestamp() != nil && len(mAcc.GetFinalizers()) == 0 && r != ResPods {
		delete(a.objs[r], k)
		a.emit(r, "DELETED", merged)
		e.Removed = true
		a.record(e)
		return merged.DeepCopyObject(), nil
	}
	a.objs[r][k] = merged
	a.emit(r, "MODIFIED", merged)
	e.After = merged.DeepCopyObject()
	a.record(e)
	return merged.DeepCopyObject(), nil
}

func jsonEqual(x, y runtime.Object) bool {
	xb, _ := json.Marshal(x)
	yb, _ := json.Marshal(y)
	return string(xb) == string(yb)
}

// Delete requests deletion. grace == nil uses the default (30 s for scheduled,
// non-terminal Pods; immediate otherwise).
func (a *API) Delete(r Res, ns, name string, grace *int64) error {
	a.mu.Lock()
	defer a.mu.Unlock()
	return a.delete(r, ns, name, grace, "")
}

func (a *API) delete(r Res, ns, name string, grace *int64, fault string) error {
	k := Key(ns, name)
	e := &Entry{Actor: a.Actor, Verb: "delete", Res: r, Key: k, Force: grace != nil && *grace == 0, Fault: fault}
	cur, ok := a.objs[r][k]
	if !ok {
		err := kerrors.NewNotFound(groupResource(r), name)
		e.Err = err.Error()
		a.record(e)
		return err
	}
	e.Before = cur.DeepCopyObject()
	acc, _ := meta.Accessor(cur)
	now := a.Clock.Now().Truncate(time.Second)
	remove := func() {
		delete(a.objs[r], k)
		bumpRV(acc)
		a.emit(r, "DELETED", cur)
		e.Removed = true
		e.Applied = true
	}
	switch {
	case r == ResPods:
		pod := cur.(*corev1.Pod)
		g := int64(30)
		if pod.Spec.TerminationGracePeriodSeconds != nil {
			g = *pod.Spec.TerminationGracePeriodSeconds
		}
		if grace != nil {
			g = *grace
		}
		// as the Pod registry strategy: unscheduled or terminal Pods are removed at once
		if pod.Spec.NodeName == "" || pod.Status.Phase == corev1.PodSucceeded || pod.Status.Phase == corev1.PodFailed {
			g = 0
		}
		if g == 0 && len(pod.Finalizers) == 0 {
			remove()
			break
		}
		newTS := metav1.NewTime(now.Add(time.Duration(g) * time.Second))
		if pod.DeletionTimestamp != nil && !newTS.Time.Before(pod.DeletionTimestamp.Time) {
			e.After = cur.DeepCopyObject() // already terminating with an earlier deadline: no change
			break
		}
		pod.DeletionTimestamp = &newTS
		pod.DeletionGracePeriodSeconds = &g
		bumpRV(acc)
		a.emit(r, "MODIFIED", cur)
		e.After = cur.DeepCopyObject()
		e.Applied = true
	case len(acc.GetFinalizers()) > 0:
		if acc.GetDeletionTimestamp() == nil {
			ts := metav1.NewTime(now)
			acc.SetDeletionTimestamp(&ts)
			bumpRV(acc)
			a.emit(r, "MODIFIED", cur)
			e.Applied = true
		}
		e.After = cur.DeepCopyObject()
	default:
		remove()
	}
	a.record(e)
	return nil
}

// RemovePod is the kubelet confirming termination of a terminating Pod.
func (a *API) RemovePod(ns, name string) bool {
	a.mu.Lock()
	defer a.mu.Unlock()
	k := Key(ns, name)
	cur, ok := a.objs[ResPods][k]
	if !ok {
		return false
	}
	acc, _ := meta.Accessor(cur)
	e := &Entry{Actor: a.Actor, Verb: "delete", Res: ResPods, Key: k, Before: cur.DeepCopyObject(), Removed: true, Applied: true}
	delete(a.objs[ResPods], k)
	bumpRV(acc)
	a.emit(ResPods, "DELETED", cur)
	a.record(e)
	return true
}

func mergeSubresource(cur, upd runtime.Object, sub string) runtime.Object {
	switch c := cur.(type) {
	case *execution.Job:
		u := upd.(*execution.Job)
		out := c.DeepCopy()
		if sub == "status" {
			out.Status = *u.Status.DeepCopy()
		} else {
			out.Spec = *u.Spec.DeepCopy()
			out.Labels, out.Annotations, out.Finalizers, out.OwnerReferences = copyStrMap(u.Labels), copyStrMap(u.Annotations), append([]string(nil), u.Finalizers...), append([]metav1.OwnerReference(nil), u.OwnerReferences...)
		}
		return out
	case *execution.JobConfig:
		u := upd.(*execution.JobConfig)
		out := c.DeepCopy()
		if sub == "status" {
			out.Status = *u.Status.DeepCopy()
		} else {
			out.Spec = *u.Spec.DeepCopy()
			out.Labels, out.Annotations, out.Finalizers = copyStrMap(u.Labels), copyStrMap(u.Annotations), append([]string(nil), u.Finalizers...)
		}
		return out
	case *corev1.Pod:
		u := upd.(*corev1.Pod)
		out := c.DeepCopy()
		if sub == "status" {
			out.Status = *u.Status.DeepCopy()
		} else {
			out.Spec = *u.Spec.DeepCopy()
			out.Labels, out.Annotations, out.Finalizers, out.OwnerReferences = copyStrMap(u.Labels), copyStrMap(u.Annotations), append([]string(nil), u.Finalizers...), append([]metav1.OwnerReference(nil), u.OwnerReferences...)
		}
		return out
	}
	return upd
}

func copyStrMap(m map[string]string) map[string]string {
	if m == nil {
		return nil
	}
	out := make(map[string]string, len(m))
	for k, v := range m {
		out[k] = v
	}
	return out
}

// ---- clientset reactor: every call a controller makes arrives here ----

// React returns the reaction function for one resource of a fake clientset.
func (a *API) React(r Res) ktesting.ReactionFunc {
	return func(action ktesting.Action) (bool, runtime.Object, error) {
		// Creates and updates are issued from the reconciler's own goroutine: the
		// point where watch events may overtake a running reconcile (World.MidPlan).
		if v := action.GetVerb(); a.MidHook != nil && (v == "create" || v == "update") {
			a.MidHook()
		}
		a.mu.Lock()
		defer a.mu.Unlock()
		ns := action.GetNamespace()
		switch action.GetVerb() {
		case "create":
			obj := action.(ktesting.CreateAction).GetObject()
			acc, _ := meta.Accessor(obj)
			acc.SetNamespace(ns)
			g := a.enter("create", r, acc.GetName())
			return a.gated(g, "create", r, Key(ns, acc.GetName()), func() (runtime.Object, error) { return a.create(r, obj, string(g.fault)) })
		case "update":
			act := action.(ktesting.UpdateAction)
			obj := act.GetObject()
			acc, _ := meta.Accessor(obj)
			acc.SetNamespace(ns)
			verb := "update"
			if act.GetSubresource() == "status" {
				verb = "updateStatus"
			}
			g := a.enter(verb, r, acc.GetName())
			return a.gated(g, verb, r, Key(ns, acc.GetName()), func() (runtime.Object, error) { return a.update(r, obj, act.GetSubresource(), string(g.fault)) })
		case "delete":
			act := action.(ktesting.DeleteAction)
			var grace *int64
			if da, ok := action.(ktesting.DeleteActionImpl); ok {
				grace = da.DeleteOptions.GracePeriodSeconds
			}
			g := a.enter("delete", r, act.GetName())
			return a.gated(g, "delete", r, Key(ns, act.GetName()), func() (runtime.Object, error) {
				return nil, a.delete(r, ns, act.GetName(), grace, string(g.fault))
			})
		case "get":
			act := action.(ktesting.GetAction)
			if a.Crashed {
				return true, nil, errProcessGone
			}
			if o, ok := a.objs[r][Key(ns, act.GetName())]; ok {
				return true, o.DeepCopyObject(), nil
			}
			return true, nil, kerrors.NewNotFound(groupResource(r), act.GetName())
		}
		return false, nil, nil
	}
}

func (a *API) gated(g gate, verb string, r Res, key string, apply func() (runtime.Object, error)) (bool, runtime.Object, error) {
	name := key
	if i := indexByte(key, '/'); i >= 0 {
		name = key[i+1:]
	}
	if g.processErr != nil {
		a.record(&Entry{Actor: a.Actor, Verb: verb, Res: r, Key: key, Err: g.processErr.Error(), Fault: "crash"})
		return true, nil, g.processErr
	}
	switch g.fault {
	case "":
	case FaultCommitTimeout:
		_, err := apply()
		if err == nil {
			err = faultErr(g.fault, r, name)
		}
		if g.dieAfter {
			a.Crashed = true
		}
		return true, nil, err
	default:
		err := faultErr(g.fault, r, name)
		a.record(&Entry{Actor: a.Actor, Verb: verb, Res: r, Key: key, Err: err.Error(), Fault: string(g.fault)})
		if g.dieAfter {
			a.Crashed = true
		}
		return true, nil, err
	}
	obj, err := apply()
	if g.dieAfter {
		a.Crashed = true
		return true, nil, errProcessGone
	}
	return true, obj, err
}

func indexByte(s string, c byte) int {
	for i := 0; i < len(s); i++ {
		if s[i] == c {
			return i
		}
	}
	return -1
}

// BeginStep resets the per-step call counter and remembers where this step's
// events start (for canonical ordering of concurrent deletes).
func (a *API) BeginStep(actor string) {
	a.mu.Lock()
	defer a.mu.Unlock()
	a.Actor = actor
	a.callsInStep = 0
	a.stepEventIdx = map[string]map[Res]int{}
	for _, s := range a.Sets {
		a.stepEventIdx[s] = map[Res]int{}
		for _, r := range AllRes {
			a.stepEventIdx[s][r] = len(a.Pending[s][r])
		}
	}
}

// EndStep canonicalises the order of the Pod events produced by the concurrent
// deletes of one reconcile (furiko deletes tasks from goroutines): runs of
// events about distinct objects commute, so they are sorted by name.
func (a *API) EndStep() int {
	a.mu.Lock()
	defer a.mu.Unlock()
	for _, s := range a.Sets {
		evs := a.Pending[s][ResPods]
		from := a.stepEventIdx[s][ResPods]
		if from > len(evs) {
			from = len(evs)
		}
		tail := evs[from:]
		distinct := map[string]bool{}
		ok := true
		for _, ev := range tail {
			acc, _ := meta.Accessor(ev.Obj)
			if distinct[acc.GetName()] {
				ok = false
			}
			distinct[acc.GetName()] = true
		}
		if ok && len(tail) > 1 {
			sort.SliceStable(tail, func(i, j int) bool {
				ai, _ := meta.Accessor(tail[i].Obj)
				aj, _ := meta.Accessor(tail[j].Obj)
				return ai.GetName() < aj.GetName()
			})
		}
	}
	return a.callsInStep
}

// CallsInStep returns the number of write calls made so far in this step.
func (a *API) CallsInStep() int { return a.callsInStep }

// ShiftStepIdx accounts for n events of (set, r) consumed from the front of the
// pending list while a step is running.
func (a *API) ShiftStepIdx(set string, r Res, n int) {
	if m := a.stepEventIdx[set]; m != nil {
		m[r] -= n
		if m[r] < 0 {
			m[r] = 0
		}
	}
}
