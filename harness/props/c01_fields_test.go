package props

import (
	"fmt"
	"strconv"
	"strings"
	"testing"
	"time"

	"pgregory.net/rapid"

	"github.com/furiko-io/furiko/pkg/execution/util/cron"

	"verif/harness/pbt"
)

// ================= C01: library-independent field-membership oracle =================
//
// The steady-state reference of C01 iterates the cron library itself, so a
// wrong answer of the library's Next would be invisible there. This sub-check
// decides "t matches the expression in its time zone" without the library: the
// expression is drawn from a plain sub-grammar (lists of *, */n, a, a-b, a-b/n
// and month / weekday names; no H, L, W, #, ?), parsed here into value sets,
// and the sequence furiko's parser + Next produce is judged against those sets:
//
//   soundness:    every returned time is later than the previous one and its
//                 local fields match (seconds, minutes, hours, month, year, and
//                 the crontab day rule: if day-of-month and day-of-week are both
//                 restricted either may match, otherwise the restricted one decides);
//   completeness: no matching instant lies between two consecutive returned
//                 times (decided day by day; only where the zone's UTC offset is
//                 constant over the gap, because local times that do not exist
//                 or exist twice have no agreed meaning).

type FieldsCase struct {
	Expr   string `json:"expr"`
	Quartz bool   `json:"quartz,omitempty"`
	Zone   string `json:"zone"`
	Start  int64  `json:"start"` // unix seconds
	Steps  int    `json:"steps"`
	// Redirected counts draws that would have produced a weekday range ending on
	// Sunday (open finding C01-weekday-range-ending-on-sunday) and were replaced.
	Redirected int `json:"redirected,omitempty"`
}

type plainRange struct {
	lo, hi int
	names  []string // names[i] stands for lo+i (months) or i (weekdays)
}

var plainRanges = []plainRange{
	{0, 59, nil}, {0, 59, nil}, {0, 23, nil}, {1, 31, nil},
	{1, 12, []string{"JAN", "FEB", "MAR", "APR", "MAY", "JUN", "JUL", "AUG", "SEP", "OCT", "NOV", "DEC"}},
	{0, 7, []string{"SUN", "MON", "TUE", "WED", "THU", "FRI", "SAT"}},
	{2020, 2026, nil},
}

const (
	pfSec = iota
	pfMin
	pfHour
	pfDom
	pfMon
	pfDow
	pfYear
)

func genPlainItem(t *rapid.T, f int, quartz bool, redirected *int) string {
	r := plainRanges[f]
	lo, hi := r.lo, r.hi
	if f == pfDow && quartz {
		lo, hi = 1, 7
	}
	num := func(label string, a, b int) int { return rapid.IntRange(a, b).Draw(t, label) }
	str := func(v int) string {
		if r.names != nil && rapid.IntRange(0, 2).Draw(t, "name?") == 0 {
			i := (v - lo) % len(r.names) // weekday 7 is SUN again
			n := r.names[i]
			switch rapid.IntRange(0, 2).Draw(t, "case") {
			case 0:
				return strings.ToLower(n)
			case 1:
				return n[:1] + strings.ToLower(n[1:])
			}
			return n
		}
		return strconv.Itoa(v)
	}
	switch rapid.SampledFrom([]string{"star", "step", "one", "one", "range", "range", "rangestep"}).Draw(t, "item") {
	case "star":
		return "*"
	case "step":
		return "*/" + strconv.Itoa(num("n", 1, (hi-lo)/2+2))
	case "one":
		return str(num("v", lo, hi))
	case "range":
		a := num("a", lo, hi)
		b := num("b", a, hi)
		a, b = avoidSundayEnd(f, quartz, a, b, redirected)
		return str(a) + "-" + str(b)
	default:
		a := num("a", lo, hi)
		b := num("b", a, hi)
		a, b = avoidSundayEnd(f, quartz, a, b, redirected)
		return fmt.Sprintf("%d-%d/%d", a, b, num("n", 1, (hi-lo)/2+2))
	}
}

// avoidSundayEnd excludes, by construction, weekday ranges whose upper end is
// Sunday (standard: x-7, 0-0, 7-7; quartz: 1-1): the cron library turns the
// Sunday at the end of a range into Saturday (open finding
// C01-weekday-range-ending-on-sunday). The range is moved to end on Saturday
// instead and the redirection is counted.
func avoidSundayEnd(f int, quartz bool, a, b int, redirected *int) (int, int) {
	if f != pfDow {
		return a, b
	}
	switch {
	case quartz && b == 1: // 1-1
		*redirected++
		return 2, 2
	case !quartz && (b == 7 || b == 0):
		*redirected++
		if a == 7 || a == 0 {
			return 1, 1
		}
		return a, 6
	}
	return a, b
}

func genPlainField(t *rapid.T, f int, quartz bool, starBias int, redirected *int) string {
	if rapid.IntRange(0, 9).Draw(t, "star?") < starBias {
		return "*"
	}
	n := rapid.SampledFrom([]int{1, 1, 1, 2, 3}).Draw(t, "nitems")
	items := make([]string, n)
	for i := range items {
		items[i] = genPlainItem(t, f, quartz, redirected)
	}
	return strings.Join(items, ",")
}

func genFieldsCase(t *rapid.T) FieldsCase {
	c := FieldsCase{Quartz: rapid.IntRange(0, 3).Draw(t, "quartz") == 0}
	nf := rapid.SampledFrom([]int{5, 5, 6, 7, 7}).Draw(t, "nfields")
	fields := []int{pfMin, pfHour, pfDom, pfMon, pfDow}
	if nf == 6 {
		fields = append(fields, pfYear)
	}
	if nf == 7 {
		fields = append([]int{pfSec}, append(fields, pfYear)...)
	}
	var parts []string
	for _, f := range fields {
		bias := map[int]int{pfSec: 2, pfMin: 3, pfHour: 5, pfDom: 6, pfMon: 7, pfDow: 6, pfYear: 8}[f]
		parts = append(parts, genPlainField(t, f, c.Quartz, bias, &c.Redirected))
	}
	c.Expr = strings.Join(parts, " ")
	c.Zone = rapid.SampledFrom([]string{"UTC", "UTC", "Asia/Singapore", "America/New_York", "Europe/London", "Australia/Lord_Howe", "Asia/Kolkata", "America/Sao_Paulo",
		"Pacific/Apia", "Asia/Kathmandu", "UTC+8", "UTC-7", "UTC+05:30", "UTC-0330", "UTC+14", "UTC-12"}).Draw(t, "zone")
	base := rapid.SampledFrom(interestingStarts).Draw(t, "start")
	c.Start = base.Add(time.Duration(rapid.IntRange(-86400*40, 86400*40).Draw(t, "startoff")) * time.Second).Unix()
	c.Steps = rapid.IntRange(1, 40).Draw(t, "steps")
	return c
}

// plainSets parses the expression into one membership table per field; the
// second result tells which of day-of-month / day-of-week are restricted.
func plainSets(expr string, quartz bool) (sets [7]map[int]bool, restricted [7]bool, err error) {
	toks := strings.Fields(expr)
	var fields []int
	switch len(toks) {
	case 5:
		fields = []int{pfMin, pfHour, pfDom, pfMon, pfDow}
	case 6:
		fields = []int{pfMin, pfHour, pfDom, pfMon, pfDow, pfYear}
	case 7:
		fields = []int{pfSec, pfMin, pfHour, pfDom, pfMon, pfDow, pfYear}
	default:
		return sets, restricted, fmt.Errorf("%d fields", len(toks))
	}
	for f := 0; f < 7; f++ {
		sets[f] = map[int]bool{}
	}
	sets[pfSec][0] = true // a missing seconds field means second 0
	for y := 1970; y <= 2099; y++ {
		sets[pfYear][y] = true // a missing year field means every year
	}
	for i, f := range fields {
		r := plainRanges[f]
		lo, hi := r.lo, r.hi
		if f == pfYear {
			lo, hi = 1970, 2099
		}
		if f == pfDow && quartz {
			lo, hi = 1, 7
		}
		val := func(s string) (int, error) {
			for j, n := range r.names {
				if strings.EqualFold(s, n) {
					return lo + j, nil
				}
			}
			return strconv.Atoi(s)
		}
		set := map[int]bool{}
		restricted[f] = true
		for _, item := range strings.Split(toks[i], ",") {
			step, bare := 1, true
			if k := strings.IndexByte(item, '/'); k >= 0 {
				bare = false
				if step, err = strconv.Atoi(item[k+1:]); err != nil {
					return sets, restricted, err
				}
				item = item[:k]
			}
			a, b := lo, hi
			switch {
			case item == "*":
				if bare { // only a bare * leaves the field unrestricted ("aren't *"); */n restricts it
					restricted[f] = false
				}
			case strings.Contains(item, "-"):
				p := strings.SplitN(item, "-", 2)
				if a, err = val(p[0]); err != nil {
					return sets, restricted, err
				}
				if b, err = val(p[1]); err != nil {
					return sets, restricted, err
				}
			default:
				if a, err = val(item); err != nil {
					return sets, restricted, err
				}
				b = a
			}
			for v := a; v <= b; v += step {
				switch {
				case f == pfDow && quartz:
					set[v-1] = true // 1-7 = SUN-SAT
				case f == pfDow:
					set[v%7] = true // 0-7, both 0 and 7 are Sunday
				default:
					set[v] = true
				}
			}
		}
		sets[f] = set
	}
	return sets, restricted, nil
}

func dayMatches(sets [7]map[int]bool, restricted [7]bool, y int, m time.Month, d int, wd time.Weekday) bool {
	if !sets[pfYear][y] || !sets[pfMon][int(m)] {
		return false
	}
	switch {
	case restricted[pfDom] && restricted[pfDow]:
		return sets[pfDom][d] || sets[pfDow][int(wd)]
	case restricted[pfDom]:
		return sets[pfDom][d]
	case restricted[pfDow]:
		return sets[pfDow][int(wd)]
	}
	return true
}

func instantMatches(sets [7]map[int]bool, restricted [7]bool, lt time.Time) bool {
	return sets[pfSec][lt.Second()] && sets[pfMin][lt.Minute()] && sets[pfHour][lt.Hour()] &&
		dayMatches(sets, restricted, lt.Year(), lt.Month(), lt.Day(), lt.Weekday())
}

// firstMatchBetween returns a matching instant strictly between a and b (local
// times of one fixed-offset zone), or the zero time.
func firstMatchBetween(sets [7]map[int]bool, restricted [7]bool, a, b time.Time) time.Time {
	loc := a.Location()
	for day := time.Date(a.Year(), a.Month(), a.Day(), 0, 0, 0, 0, loc); day.Before(b); day = day.AddDate(0, 0, 1) {
		if !dayMatches(sets, restricted, day.Year(), day.Month(), day.Day(), day.Weekday()) {
			continue
		}
		for h := 0; h < 24; h++ {
			if !sets[pfHour][h] {
				continue
			}
			for m := 0; m < 60; m++ {
				if !sets[pfMin][m] {
					continue
				}
				for s := 0; s < 60; s++ {
					if !sets[pfSec][s] {
						continue
					}
					c := time.Date(day.Year(), day.Month(), day.Day(), h, m, s, 0, loc)
					if c.Hour() != h || c.Minute() != m || c.Second() != s || c.Day() != day.Day() {
						continue // this local time does not exist on that day (clock change); time.Date moved it
					}
					if c.After(a) && c.Before(b) {
						return c
					}
					if !c.Before(b) {
						return time.Time{}
					}
				}
			}
		}
	}
	return time.Time{}
}

func runFieldsCase(c FieldsCase) pbt.Result {
	res := pbt.Result{Excluded: c.Redirected}
	sets, restricted, err := plainSets(c.Expr, c.Quartz)
	if err != nil {
		panic(fmt.Sprintf("generator produced %q outside the plain grammar: %v", c.Expr, err))
	}
	loc := refZones[c.Zone]
	if loc == nil {
		panic("unknown zone " + c.Zone)
	}
	cfg := CronCfg{Format: "standard"}
	if c.Quartz {
		cfg.Format = "quartz"
	}
	f := false
	typed := cfg.typed()
	typed.CronHashNames = &f
	expr, err := cron.NewParserFromConfig(typed).Parse(c.Expr, "ns/name")
	if err != nil {
		res.Violation = pbt.V("C01", "fields/rejected", "plain expression %q (format %s) is rejected: %v", c.Expr, cfg.Format, err)
		return res
	}
	labels := map[string]bool{fmt.Sprintf("fields:%d", len(strings.Fields(c.Expr))): true}
	if restricted[pfDom] && restricted[pfDow] {
		labels["dom-and-dow-restricted"] = true
	}
	prev := time.Unix(c.Start, 0).In(loc)
	returned := 0
	for i := 0; i < c.Steps; i++ {
		next := expr.Next(prev)
		if next.IsZero() {
			labels["exhausted"] = true
			// nothing may match before the year domain ends; checked for one year ahead
			if m := firstMatchBetween(sets, restricted, prev, prev.AddDate(1, 0, 0)); !m.IsZero() && fixedOffset(loc, prev, prev.AddDate(1, 0, 0)) {
				res.Violation = pbt.V("C01", "fields/missed", "%q in %s: no time after %v although %v matches", c.Expr, c.Zone, prev, m)
			}
			break
		}
		returned++
		lt := next.In(loc)
		if !next.After(prev) {
			res.Violation = pbt.V("C01", "fields/not-increasing", "%q in %s: Next(%v) = %v", c.Expr, c.Zone, prev, lt)
			break
		}
		if !instantMatches(sets, restricted, lt) {
			res.Violation = pbt.V("C01", "fields/off-schedule", "%q (format %s) in %s: Next(%v) = %v (%s), which does not match the fields", c.Expr, cfg.Format, c.Zone, prev, lt, lt.Weekday())
			break
		}
		if fixedOffset(loc, prev, next) {
			labels["gap-checked"] = true
			if m := firstMatchBetween(sets, restricted, prev, lt); !m.IsZero() {
				res.Violation = pbt.V("C01", "fields/missed", "%q (format %s) in %s: Next(%v) = %v skips %v (%s), which matches the fields", c.Expr, cfg.Format, c.Zone, prev, lt, m, m.Weekday())
				break
			}
		} else {
			labels["gap-spans-offset-change"] = true
		}
		prev = lt
	}
	res.NonTrivial = returned > 0
	res.Labels = sortedLabels(labels)
	return res
}

// fixedOffset reports whether the zone keeps one UTC offset from a to b.
func fixedOffset(loc *time.Location, a, b time.Time) bool {
	_, oa := a.In(loc).Zone()
	for t := a; t.Before(b); t = t.Add(6 * time.Hour) {
		if _, o := t.In(loc).Zone(); o != oa {
			return false
		}
	}
	_, ob := b.In(loc).Zone()
	return oa == ob
}

func TestC01_fields(t *testing.T) {
	pbt.Check(t, pbt.Opts{ID: "C01", Name: "fields", Checks: 6000, ThoroughMul: 15,
		Rule: "cron expression of 5, 6 or 7 fields from a plain sub-grammar (lists of *, */n, a, a-b, a-b/n, month and weekday names; standard or quartz weekday numbering) x time zone x start instant; furiko's parser + Next are iterated 1-40 times and every returned time is judged against value sets parsed here, without the library: strictly increasing, local fields match (crontab day rule), and no matching instant in between (where the zone's offset is constant over the gap); non-trivial = at least one time was returned; distinct = distinct case"},
		genFieldsCase, runFieldsCase)
}

// TestKnownC01_weekdayRangeEndingOnSunday is the fixed reproducer of the open
// finding: "0 12 * * 6-7" (Saturday to Sunday) never fires on a Sunday.
func TestKnownC01_weekdayRangeEndingOnSunday(t *testing.T) {
	pbt.Known(t, "C01", "C01-weekday-range-ending-on-sunday", func() *pbt.Violation {
		return runFieldsCase(FieldsCase{Expr: "0 12 * * 6-7", Zone: "UTC", Start: 1648911530, Steps: 4}).Violation
	})
}
