#!/usr/bin/env python3
"""Sensitivity runner: applies one source mutation at a time to /repo, runs the
named checks at reduced scale, reverts, and prints a table. A mutation counts
only if it compiles; --tests also runs the mutated package's own unit tests.

  tools/sens.py [--only ID[,ID]] [--tests] [--scale PCT]
"""
import argparse, json, os, subprocess, sys, time
ROOT = os.path.dirname(os.path.dirname(os.path.abspath(__file__)))
MUTS = json.load(open(os.path.join(ROOT, "tools", "mutations.json")))
ENV = dict(os.environ, GOFLAGS="-mod=mod", GOPROXY="off", GOSUMDB="off", GOTOOLCHAIN="local")

def sh(cmd, cwd=None, timeout=1800):
    return subprocess.run(cmd, shell=True, cwd=cwd, env=ENV, stdout=subprocess.PIPE, stderr=subprocess.STDOUT, text=True, timeout=timeout)

def main():
    ap = argparse.ArgumentParser()
    ap.add_argument("--only", default="")
    ap.add_argument("--tests", action="store_true")
    ap.add_argument("--scale", type=int, default=50)
    a = ap.parse_args()
    only = set(x for x in a.only.split(",") if x)
    assert sh("git status --porcelain", "/repo").stdout.strip() == "", "/repo must be clean"
    rows = []
    for m in MUTS:
        if only and m["id"] not in only and not (set(m["props"]) & only):
            continue
        path = os.path.join("/repo", m["file"])
        src = open(path).read()
        if src.count(m["old"]) < 1:
            rows.append((m["id"], "STALE (pattern not found)", "", "")); continue
        open(path, "w").write(src.replace(m["old"], m["new"], 1))
        try:
            pkg = "./" + os.path.dirname(m["file"]) + "/"
            b = sh("go build %s" % pkg, "/repo")
            if b.returncode != 0:
                rows.append((m["id"], "does not compile", "", b.stdout[-200:])); continue
            tests = ""
            if a.tests:
                t = sh("go test -count=1 -vet=off %s" % pkg, "/repo")
                tests = "unit tests pass" if t.returncode == 0 else "UNIT TESTS FAIL"
            res = []
            for p in m["props"]:
                t0 = time.time()
                r = sh("./check %s --scale %d" % (p, a.scale), ROOT)
                sig = ""
                for line in r.stdout.splitlines():
                    if "violated oracle" in line:
                        sig = line.strip()[16:120]; break
                res.append("%s:%s(%.0fs)%s" % (p, {0: "green", 1: "RED", 2: "inconclusive"}.get(r.returncode, r.returncode), time.time() - t0, " " + sig if sig else ""))
            rows.append((m["id"], "; ".join(res), tests, m.get("note", "")))
        finally:
            open(path, "w").write(src)
    sh("git checkout -- .", "/repo")
    for r in rows:
        print(" | ".join(r))

if __name__ == "__main__":
    main()
