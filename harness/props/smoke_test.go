package props

import (
	"testing"
	"time"

	corev1 "k8s.io/api/core/v1"
	metav1 "k8s.io/apimachinery/pkg/apis/meta/v1"
	"k8s.io/utils/pointer"

	execution "github.com/furiko-io/furiko/apis/execution/v1alpha1"

	"verif/harness/sim"
)

func basicJobConfig(name string) *execution.JobConfig {
	return &execution.JobConfig{
		ObjectMeta: metav1.ObjectMeta{Name: name, Namespace: "ns"},
		Spec: execution.JobConfigSpec{
			Template: execution.JobTemplateSpec{Spec: execution.JobTemplate{
				TaskTemplate: execution.TaskTemplate{Pod: &execution.PodTemplateSpec{Spec: corev1.PodSpec{Containers: []corev1.Container{{Name: "main", Image: "alpine"}}}}},
				MaxAttempts:  pointer.Int64(2),
			}},
			Concurrency: execution.ConcurrencySpec{Policy: execution.ConcurrencyPolicyForbid},
			Schedule:    &execution.ScheduleSpec{Cron: &execution.CronSchedule{Expression: "* * * * *"}},
		},
	}
}

// TestSmoke_lifecycle drives all controllers through a full life cycle on the
// simulated control plane. It checks the model, not furiko.
func TestSmoke_lifecycle(t *testing.T) {
	w := sim.NewWorld(sim.Options{})
	if _, err := w.UserCreate(sim.ResJobConfigs, basicJobConfig("jc")); err != nil {
		t.Fatal(err)
	}
	w.DeliverAll()
	if err := w.StartProcess(); err != nil {
		t.Fatal(err)
	}
	for i := 0; i < 130; i++ {
		w.Advance(time.Second)
		w.CronTick()
		if !w.Settle(100) {
			t.Fatal("livelock")
		}
		for _, p := range w.API.Pods() {
			k := p.Namespace + "/" + p.Name
			switch {
			case p.DeletionTimestamp != nil:
				w.KubeletTerminate(k)
			case p.Spec.NodeName == "":
				w.KubeletSchedule(k)
			case p.Status.Phase == corev1.PodPending:
				w.KubeletRun(k)
			case p.Status.Phase == corev1.PodRunning && i%7 == 0:
				w.KubeletFinish(k, sim.OutFail)
			case p.Status.Phase == corev1.PodRunning && i%5 == 0:
				w.KubeletFinish(k, sim.OutSuccess)
			}
		}
	}
	w.Settle(100)
	t.Logf("requests=%d skips=%d jobs=%d pods=%d ledger=%d steps=%d", len(w.Requests), len(w.Skips), len(w.API.Jobs()), len(w.API.Pods()), len(w.API.Ledger), w.Steps)
	for _, j := range w.API.Jobs() {
		t.Logf("job %s phase=%s tasks=%d start=%v", j.Name, j.Status.Phase, len(j.Status.Tasks), j.Status.StartTime)
	}
	for _, jc := range w.API.JobConfigs() {
		t.Logf("jc %s state=%s active=%d queued=%d lastScheduled=%v", jc.Name, jc.Status.State, jc.Status.Active, jc.Status.Queued, jc.Status.LastScheduled)
	}
	if len(w.Requests) < 2 || len(w.API.Jobs()) < 1 {
		t.Fatalf("smoke: nothing happened")
	}
}
