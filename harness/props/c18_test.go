package props

import (
	"encoding/json"
	"fmt"
	"reflect"
	"strings"
	"testing"

	admissionv1 "k8s.io/api/admission/v1"
	corev1 "k8s.io/api/core/v1"
	metav1 "k8s.io/apimachinery/pkg/apis/meta/v1"
	"k8s.io/apimachinery/pkg/util/validation/field"
	"k8s.io/utils/pointer"
	"pgregory.net/rapid"
	"sigs.k8s.io/yaml"

	execution "github.com/furiko-io/furiko/apis/execution/v1alpha1"
	"github.com/furiko-io/furiko/pkg/core/options"
	"github.com/furiko-io/furiko/pkg/execution/mutation"
	"github.com/furiko-io/furiko/pkg/execution/taskexecutor/podtaskexecutor"
	"github.com/furiko-io/furiko/pkg/execution/tasks"

	"verif/harness/pbt"
)

type EvalCase struct {
	Spec   *execution.OptionSpec  `json:"spec"`
	Values map[string]interface{} `json:"values"`
}

func preparedSpec(raw *execution.OptionSpec) (*execution.OptionSpec, bool) {
	if raw == nil {
		return nil, true
	}
	spec := options.MutateDefaultingOptionSpec(raw)
	if errs := options.ValidateOptionSpec(spec, field.NewPath("spec", "option")); len(errs) > 0 {
		return spec, false
	}
	return spec, true
}

func optLabels(spec *execution.OptionSpec, vals map[string]interface{}) []string {
	l := []string{}
	seen := map[string]bool{}
	add := func(s string) {
		if !seen[s] {
			seen[s] = true
			l = append(l, s)
		}
	}
	if spec != nil {
		for _, o := range spec.Options {
			add("type:" + string(o.Type))
			if o.Required {
				add("required")
			}
		}
	}
	for _, v := range vals {
		switch x := v.(type) {
		case nil:
			add("value:null")
		case string:
			if hasVarSyntax(x) {
				add("value:has-var-syntax")
			}
		}
	}
	return l
}

// TestC18_evaluate: for accepted option specs and arbitrary value maps,
// EvaluateOptions either rejects or yields exactly one value per option equal
// to the reference evaluator's; with no value it equals MakeDefaultOptions.
func TestC18_evaluate(t *testing.T) {
	pbt.Check(t, pbt.Opts{ID: "C18", Name: "evaluate", Checks: 20000, ThoroughMul: 20,
		Rule: "random option spec (all five types) x random value map (missing/null/good/custom/empty/wrong-typed/with ${}); non-trivial = spec accepted, at least one option and one value given; distinct = distinct (spec, values)"},
		func(t *rapid.T) EvalCase {
			spec := genOptionSpec(t, 5, rapid.IntRange(0, 9).Draw(t, "validspec") != 0, true)
			return EvalCase{Spec: spec, Values: genOptionValues(t, spec, true)}
		},
		func(c EvalCase) pbt.Result {
			spec, accepted := preparedSpec(c.Spec)
			res := pbt.Result{Labels: optLabels(spec, c.Values)}
			if !accepted {
				res.Labels = append(res.Labels, "spec-rejected")
				return res
			}
			vals := decodeLikeAdmission(c.Values)
			nopts := 0
			if spec != nil {
				nopts = len(spec.Options)
			}
			res.NonTrivial = nopts > 0 && len(vals) > 0
			got, errs := options.EvaluateOptions(vals, spec, field.NewPath("spec", "optionValues"))
			want, ok := refEvaluate(spec, vals)
			if !ok {
				res.Labels = append(res.Labels, "job-rejected")
				if len(errs) == 0 {
					res.Violation = pbt.V("C18", "evaluate/accepted-bad-value", "values %v violate an option constraint but were accepted: %v", vals, got)
				}
				return res
			}
			res.Labels = append(res.Labels, "job-accepted")
			if len(errs) > 0 {
				res.Violation = pbt.V("C18", "evaluate/rejected-good-value", "values %v satisfy every option but were rejected: %v", vals, errs)
				return res
			}
			if !reflect.DeepEqual(got, want) {
				res.Violation = pbt.V("C18", "evaluate/value", "EvaluateOptions = %q, reference = %q", got, want)
				return res
			}
			if len(got) != nopts {
				res.Violation = pbt.V("C18", "evaluate/one-per-option", "%d values for %d options", len(got), nopts)
				return res
			}
			// defaults: the same value the JobConfig's defaults produce
			defs, err := options.MakeDefaultOptions(spec)
			if err != nil {
				res.Violation = pbt.V("C18", "evaluate/defaults-error", "MakeDefaultOptions on an accepted spec: %v", err)
				return res
			}
			got0, errs0 := options.EvaluateOptions(map[string]interface{}{}, spec, field.NewPath("x"))
			if spec != nil {
				for _, o := range spec.Options {
					w, ok := refEvalOption(o, false, nil)
					key := "option." + o.Name
					if !ok {
						continue // required without default: nothing to compare
					}
					if defs[key] != w {
						res.Violation = pbt.V("C18", "evaluate/default-value", "MakeDefaultOptions[%s]=%q, reference default %q", key, defs[key], w)
						return res
					}
					if len(errs0) == 0 && got0[key] != defs[key] {
						res.Violation = pbt.V("C18", "evaluate/default-mismatch", "no value given: EvaluateOptions[%s]=%q but MakeDefaultOptions gives %q", key, got0[key], defs[key])
						return res
					}
					// every option whose value was not given keeps its default
					if v, present := vals[o.Name]; !present || v == nil {
						if got[key] != defs[key] {
							res.Violation = pbt.V("C18", "evaluate/default-not-used", "%s not given: got %q, default %q", key, got[key], defs[key])
							return res
						}
					}
				}
			}
			return res
		})
}

// ---------- rendering ----------

type Piece struct {
	Lit string `json:"lit,omitempty"`
	Var string `json:"var,omitempty"`
}

type RenderCase struct {
	Spec     *execution.OptionSpec  `json:"spec"`
	Values   map[string]interface{} `json:"values"`
	Explicit map[string]string      `json:"explicit"`
	Pieces   [][]Piece              `json:"pieces"` // one template string per entry
	JCName   string                 `json:"jcName"`
	JobName  string                 `json:"jobName"`
	Par      string                 `json:"par"` // none|count|key|matrix
	Retry    int                    `json:"retry"`
	YAML     bool                   `json:"yaml"`
}

func templateString(ps []Piece) string {
	var sb strings.Builder
	for _, p := range ps {
		s := p.Lit
		if p.Var != "" {
			s = "${" + p.Var + "}"
		}
		cur := sb.String()
		if strings.HasSuffix(cur, "$") && strings.HasPrefix(s, "{") {
			sb.WriteString(" ")
		}
		sb.WriteString(s)
	}
	return sb.String()
}

var reservedPrefixes = []string{"jobconfig.", "job.", "task.", "option."}

func genRenderCase(t *rapid.T) RenderCase {
	spec := genOptionSpec(t, 4, true, true)
	c := RenderCase{
		Spec:    spec,
		Values:  genOptionValues(t, spec, true),
		JCName:  rapid.StringMatching(`[a-z][a-z0-9-]{0,8}[a-z0-9]`).Draw(t, "jc"),
		JobName: rapid.StringMatching(`[a-z][a-z0-9-]{0,8}[a-z0-9]`).Draw(t, "job"),
		Par:     rapid.SampledFrom([]string{"none", "count", "key", "matrix"}).Draw(t, "par"),
		Retry:   rapid.IntRange(0, 3).Draw(t, "retry"),
		YAML:    rapid.Bool().Draw(t, "yaml"),
	}
	varNames := []string{"job.name", "job.namespace", "job.uid", "job.type", "job.max_attempts", "job.bogus", "task.name", "task.namespace",
		"task.retry_index", "task.index_num", "task.index_key", "task.index_matrix.os", "task.index_matrix.nope", "task.zzz",
		"jobconfig.name", "jobconfig.namespace", "jobconfig.uid", "jobconfig.cron_schedule", "option.unknown", "custom.x", "other.y", "x", "job", "option"}
	if spec != nil {
		for _, o := range spec.Options {
			varNames = append(varNames, "option."+o.Name, "option."+o.Name)
		}
	}
	// explicit substitutions: any key, including ones that shadow other sources
	c.Explicit = map[string]string{}
	ne := rapid.IntRange(0, 4).Draw(t, "nexplicit")
	for i := 0; i < ne; i++ {
		k := rapid.SampledFrom(varNames).Draw(t, "ek")
		c.Explicit[k] = "E:" + genWord(t, "ev", true)
	}
	nt := rapid.IntRange(1, 4).Draw(t, "ntemplates")
	for i := 0; i < nt; i++ {
		np := rapid.IntRange(1, 6).Draw(t, "npieces")
		var ps []Piece
		for j := 0; j < np; j++ {
			if rapid.IntRange(0, 2).Draw(t, "isvar") != 0 {
				ps = append(ps, Piece{Var: rapid.SampledFrom(varNames).Draw(t, "var")})
			} else {
				ps = append(ps, Piece{Lit: rapid.OneOf(rapid.StringMatching(`[a-zA-Z0-9 _./:=-]{1,8}`),
					rapid.SampledFrom([]string{"$", "{", "}", "$$", "echo ", "$HOME", "{}"})).Draw(t, "lit")})
			}
		}
		c.Pieces = append(c.Pieces, ps)
	}
	return c
}

func (c RenderCase) index() (execution.ParallelIndex, *execution.ParallelismSpec) {
	switch c.Par {
	case "count":
		return execution.ParallelIndex{IndexNumber: pointer.Int64(2)}, &execution.ParallelismSpec{WithCount: pointer.Int64(3)}
	case "key":
		return execution.ParallelIndex{IndexKey: "kb"}, &execution.ParallelismSpec{WithKeys: []string{"ka", "kb"}}
	case "matrix":
		return execution.ParallelIndex{MatrixValues: map[string]string{"os": "linux", "arch": "arm"}},
			&execution.ParallelismSpec{WithMatrix: map[string][]string{"os": {"linux", "mac"}, "arch": {"arm"}}}
	}
	return execution.ParallelIndex{IndexNumber: pointer.Int64(0)}, nil
}

// TestC18_render: Jobs built through the real admission path (configName
// expansion, option evaluation, substitution merge) and rendered by NewPod.
func TestC18_render(t *testing.T) {
	pbt.Check(t, pbt.Opts{ID: "C18", Name: "render", Checks: 5000, ThoroughMul: 20,
		Rule: "random JobConfig options x option values x explicit substitutions x template strings, admitted through JobPatcher and rendered by NewPod 30 times; non-trivial = some variable defined by >=2 sources or some value contains ${; distinct = distinct case"},
		genRenderCase, runRenderCase)
}

func runRenderCase(c RenderCase) pbt.Result {
	res := pbt.Result{}
	spec, accepted := preparedSpec(c.Spec)
	if !accepted {
		res.Labels = []string{"spec-rejected"}
		return res
	}
	ctx := newMockCtx()
	var env []corev1.EnvVar
	var tmpls []string
	for i, ps := range c.Pieces {
		s := templateString(ps)
		tmpls = append(tmpls, s)
		env = append(env, corev1.EnvVar{Name: fmt.Sprintf("T%d", i), Value: s})
	}
	idx, par := c.index()
	jc := &execution.JobConfig{
		ObjectMeta: metav1.ObjectMeta{Name: c.JCName, Namespace: "ns", UID: "jc-uid-1"},
		Spec: execution.JobConfigSpec{
			Option: spec,
			Template: execution.JobTemplateSpec{Spec: execution.JobTemplate{
				Parallelism: par,
				TaskTemplate: execution.TaskTemplate{Pod: &execution.PodTemplateSpec{Spec: corev1.PodSpec{
					Containers: []corev1.Container{{Name: "main", Image: tmpls[0], Env: env, Command: []string{tmpls[len(tmpls)-1]}, Args: tmpls}},
				}}},
			}},
		},
	}
	if err := ctx.Informers().Furiko().Execution().V1alpha1().JobConfigs().Informer().GetIndexer().Add(jc); err != nil {
		panic(err)
	}
	job := &execution.Job{
		ObjectMeta: metav1.ObjectMeta{Name: c.JobName, Namespace: "ns", UID: "job-uid-1"},
		Spec:       execution.JobSpec{ConfigName: c.JCName, Substitutions: copyMap(c.Explicit)},
	}
	if len(c.Values) > 0 {
		job.Spec.OptionValues = encodeValues(c.Values, c.YAML)
	}
	vals := decodeLikeAdmission(c.Values)
	wantOpts, ok := refEvaluate(spec, vals)
	result := mutation.NewJobPatcher(ctx).Patch(admissionv1.Create, nil, job)
	if !ok {
		res.Labels = append(res.Labels, "job-rejected")
		if len(result.Errors) == 0 {
			res.Violation = pbt.V("C18", "render/accepted-bad-value", "admission accepted option values %v that violate the spec", vals)
		}
		return res
	}
	if len(result.Errors) > 0 {
		res.Violation = pbt.V("C18", "render/rejected-good-value", "admission rejected a Job whose option values %v are valid: %v", vals, result.Errors)
		return res
	}
	// expected variable table, highest priority first
	jobVars := map[string]string{"job.uid": "job-uid-1", "job.name": c.JobName, "job.namespace": "ns", "job.type": string(job.Spec.Type)}
	if job.Spec.Template != nil && job.Spec.Template.MaxAttempts != nil {
		jobVars["job.max_attempts"] = fmt.Sprint(*job.Spec.Template.MaxAttempts)
	}
	tindex := tasks.TaskIndex{Retry: int64(c.Retry), Parallel: idx}
	taskVars := map[string]string{"task.namespace": "ns", "task.retry_index": fmt.Sprint(c.Retry)}
	switch {
	case idx.IndexNumber != nil:
		taskVars["task.index_num"] = fmt.Sprint(*idx.IndexNumber)
	case idx.IndexKey != "":
		taskVars["task.index_key"] = idx.IndexKey
	default:
		for k, v := range idx.MatrixValues {
			taskVars["task.index_matrix."+k] = v
		}
	}
	jcVars := map[string]string{"jobconfig.uid": "jc-uid-1", "jobconfig.name": c.JCName, "jobconfig.namespace": "ns"}
	sources := []map[string]string{c.Explicit, wantOpts, jcVars, jobVars, taskVars}

	multi, anyVarValue := false, false
	for _, m := range sources {
		for _, v := range m {
			if strings.Contains(v, "$") { // "$" alone could combine with literal text into variable syntax
				anyVarValue = true
			}
		}
	}
	for k := range c.Explicit {
		for _, m := range sources[1:] {
			if _, ok := m[k]; ok {
				multi = true
			}
		}
		if k == "task.name" {
			multi = true
		}
	}
	if multi {
		res.Labels = append(res.Labels, "shadowed-variable")
	}
	if anyVarValue {
		res.Labels = append(res.Labels, "value-has-var-syntax")
	}
	res.NonTrivial = multi || anyVarValue

	tmpl := &corev1.PodTemplateSpec{Spec: job.Spec.Template.TaskTemplate.Pod.Spec}
	pod, err := podtaskexecutor.NewPod(job, tmpl, tindex)
	if err != nil {
		res.Violation = pbt.V("C18", "render/newpod-error", "NewPod: %v", err)
		return res
	}
	taskVars["task.name"] = pod.Name

	// O3: determinism, for all inputs
	first := renderOf(pod)
	for i := 0; i < 30; i++ {
		j2 := job.DeepCopy()
		j2.Spec.Substitutions = copyMapRot(job.Spec.Substitutions, i)
		p2, err := podtaskexecutor.NewPod(j2, tmpl, tindex)
		if err != nil {
			res.Violation = pbt.V("C18", "render/newpod-error", "NewPod: %v", err)
			return res
		}
		if r := renderOf(p2); r != first {
			res.Violation = pbt.V("C18", "render/nondeterministic", "rendering %d differs for the same Job and index:\n  first: %q\n  now:   %q", i, first, r)
			return res
		}
	}

	// O2: exact expectation, where no value contains variable syntax
	if anyVarValue {
		return res
	}
	lookup := func(name string) (string, bool) {
		for _, m := range sources {
			if v, ok := m[name]; ok {
				return v, true
			}
		}
		return "", false
	}
	// The separator rule above only looks at literal text: make sure expectation and template agree on it.
	for i, ps := range c.Pieces {
		want := expectFromTemplate(ps, lookup)
		got := pod.Spec.Containers[0].Env[i].Value
		if got != want {
			res.Violation = pbt.V("C18", "render/value", "template %q rendered %q, want %q (sources by priority: explicit=%v options=%v)", tmpls[i], got, want, c.Explicit, wantOpts)
			return res
		}
		if a := pod.Spec.Containers[0].Args[i]; a != want {
			res.Violation = pbt.V("C18", "render/args", "args[%d] rendered %q, want %q", i, a, want)
			return res
		}
	}
	if got, want := pod.Spec.Containers[0].Image, expectFromTemplate(c.Pieces[0], lookup); got != want {
		res.Violation = pbt.V("C18", "render/image", "image rendered %q, want %q", got, want)
	}
	return res
}

// expectFromTemplate renders the pieces with the same literal layout as
// templateString (the separator is decided on the template text, before any
// substitution).
func expectFromTemplate(ps []Piece, lookup func(string) (string, bool)) string {
	var tmpl, out strings.Builder
	for _, p := range ps {
		raw := p.Lit
		if p.Var != "" {
			raw = "${" + p.Var + "}"
		}
		if strings.HasSuffix(tmpl.String(), "$") && strings.HasPrefix(raw, "{") {
			tmpl.WriteString(" ")
			out.WriteString(" ")
		}
		tmpl.WriteString(raw)
		s := raw
		if p.Var != "" {
			if v, ok := lookup(p.Var); ok {
				s = v
			} else {
				for _, pre := range reservedPrefixes {
					if strings.HasPrefix(p.Var, pre) && len(p.Var) > len(pre) {
						s = ""
					}
				}
			}
		}
		out.WriteString(s)
	}
	return out.String()
}

func renderOf(p *corev1.Pod) string {
	var sb strings.Builder
	for _, c := range p.Spec.Containers {
		sb.WriteString(c.Image + "\x00")
		for _, e := range c.Env {
			sb.WriteString(e.Name + "=" + e.Value + "\x00")
		}
		sb.WriteString(strings.Join(c.Command, "\x01") + "\x00" + strings.Join(c.Args, "\x01"))
	}
	return sb.String()
}

func copyMap(m map[string]string) map[string]string {
	if m == nil {
		return nil
	}
	out := make(map[string]string, len(m))
	for k, v := range m {
		out[k] = v
	}
	return out
}

// copyMapRot rebuilds the map inserting keys in a rotated sorted order.
func copyMapRot(m map[string]string, rot int) map[string]string {
	ks := sortedKeys(m)
	out := make(map[string]string, len(m))
	for i := range ks {
		k := ks[(i+rot)%len(ks)]
		out[k] = m[k]
	}
	return out
}

func encodeValues(vals map[string]interface{}, asYAML bool) string {
	b, _ := json.Marshal(vals)
	if asYAML {
		if y, err := yaml.JSONToYAML(b); err == nil {
			return string(y)
		}
	}
	return string(b)
}
