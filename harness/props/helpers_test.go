package props

import (
	"bytes"
	"context"
	"flag"
	"io"
	"os"
	"testing"

	k8syaml "k8s.io/apimachinery/pkg/util/yaml"
	"k8s.io/klog/v2"

	"github.com/furiko-io/furiko/pkg/runtime/controllercontext/mock"
)

func TestMain(m *testing.M) {
	// furiko logs through klog; keep it away from stderr and from /tmp log files.
	fs := flag.NewFlagSet("klog", flag.ContinueOnError)
	klog.InitFlags(fs)
	_ = fs.Set("logtostderr", "false")
	_ = fs.Set("alsologtostderr", "false")
	_ = fs.Set("stderrthreshold", "FATAL")
	klog.SetOutput(io.Discard)
	os.Exit(m.Run())
}

// newMockCtx returns furiko's own mock controller context with the dynamic
// config manager started (defaults + in-memory overrides).
func newMockCtx() *mock.Context {
	ctx := mock.NewContext()
	if err := ctx.MockConfigs().Start(context.Background()); err != nil {
		panic(err)
	}
	return ctx
}

func yamlUnmarshal(b []byte, out interface{}) error {
	return k8syaml.NewYAMLOrJSONDecoder(bytes.NewReader(b), 4096).Decode(out)
}
