package props

import (
	"context"
	"encoding/base64"
	"encoding/json"
	"fmt"
	"reflect"
	"sort"
	"testing"

	corev1 "k8s.io/api/core/v1"
	metav1 "k8s.io/apimachinery/pkg/apis/meta/v1"
	"pgregory.net/rapid"
	"sigs.k8s.io/yaml"

	configv1alpha1 "github.com/furiko-io/furiko/apis/config/v1alpha1"
	"github.com/furiko-io/furiko/pkg/runtime/configloader"
	"github.com/furiko-io/furiko/pkg/runtime/controllercontext"

	"verif/harness/pbt"
)

// The three configuration kinds and their fields (JSON names), with the type
// class of each field and the built-in defaults (pkg/config/defaults.go).
type cfgField struct {
	Name string
	Typ  string // int|bool|string
}

var cfgKinds = map[string][]cfgField{
	"jobs":       {{"defaultTTLSecondsAfterFinished", "int"}, {"defaultPendingTimeoutSeconds", "int"}, {"forceDeleteTaskTimeoutSeconds", "int"}},
	"jobConfigs": {{"maxEnqueuedJobs", "int"}},
	"cron": {{"cronFormat", "string"}, {"cronHashNames", "bool"}, {"cronHashSecondsByDefault", "bool"}, {"cronHashFields", "bool"},
		{"defaultTimezone", "string"}, {"maxMissedSchedules", "int"}, {"maxDowntimeThresholdSeconds", "int"}},
}
var cfgKindNames = []string{"jobs", "jobConfigs", "cron"}

var cfgDefaults = map[string]map[string]interface{}{
	"jobs":       {"defaultTTLSecondsAfterFinished": float64(3600), "defaultPendingTimeoutSeconds": float64(900), "forceDeleteTaskTimeoutSeconds": float64(900)},
	"jobConfigs": {"maxEnqueuedJobs": float64(20)},
	"cron": {"cronFormat": "standard", "cronHashNames": true, "cronHashSecondsByDefault": false, "cronHashFields": true,
		"defaultTimezone": "UTC", "maxMissedSchedules": float64(5), "maxDowntimeThresholdSeconds": float64(300)},
}

// CfgEntry is the content of one key (kind) of a ConfigMap/Secret.
type CfgEntry struct {
	Fields map[string]interface{} `json:"fields,omitempty"` // well-formed object (values may be wrongly typed)
	Raw    string                 `json:"raw,omitempty"`    // undecodable text, used instead of Fields
	YAML   bool                   `json:"yaml,omitempty"`
	BadB64 bool                   `json:"badB64,omitempty"` // Secret only: not base64
}

type CfgEvent struct {
	Source  string              `json:"source"` // cm|secret|other
	Content map[string]CfgEntry `json:"content"`
}

type CfgCase struct {
	Events []CfgEvent `json:"events"`
}

var undecodable = []string{"{", "[1,2", "a: b: c", "\t- x\n y", "{\"a\":}", "::: :", "- just\n- a list"}

func genGoodValue(t *rapid.T, typ string) interface{} {
	switch typ {
	case "int":
		return float64(rapid.SampledFrom([]int{0, 0, 1, 2, 5, 60, 300, 3600, 86400}).Draw(t, "iv"))
	case "bool":
		return rapid.Bool().Draw(t, "bv")
	default:
		return rapid.SampledFrom([]string{"", "standard", "quartz", "UTC", "Asia/Singapore", "America/New_York"}).Draw(t, "sv")
	}
}

func genBadValue(t *rapid.T, typ string) interface{} {
	// composite where a scalar is expected: mergo skips such a value instead of
	// failing (repaired defect 14: the source must then not be applied at all)
	if rapid.IntRange(0, 2).Draw(t, "composite") == 0 {
		return rapid.SampledFrom([]interface{}{map[string]interface{}{"a": float64(1)}, []interface{}{float64(1)}, map[string]interface{}{}}).Draw(t, "cbad")
	}
	switch typ {
	case "int":
		return rapid.SampledFrom([]interface{}{"abc", true, "12"}).Draw(t, "ibad")
	case "bool":
		return rapid.SampledFrom([]interface{}{"yes", float64(1), "true"}).Draw(t, "bbad")
	default:
		return rapid.SampledFrom([]interface{}{float64(5), true}).Draw(t, "sbad")
	}
}

func genCfgEvent(t *rapid.T) CfgEvent {
	ev := CfgEvent{Source: rapid.SampledFrom([]string{"cm", "cm", "cm", "secret", "secret", "other"}).Draw(t, "source"), Content: map[string]CfgEntry{}}
	mode := rapid.SampledFrom([]string{"good", "good", "good", "good", "wrongtype", "undecodable", "badb64"}).Draw(t, "mode")
	if mode == "badb64" && ev.Source != "secret" {
		mode = "undecodable"
	}
	// which kinds are present in this update
	var present []string
	for _, k := range cfgKindNames {
		if rapid.IntRange(0, 2).Draw(t, "has:"+k) != 0 {
			present = append(present, k)
		}
	}
	badKind := ""
	if mode != "good" {
		if len(present) == 0 {
			present = []string{rapid.SampledFrom(cfgKindNames).Draw(t, "forcekind")}
		}
		badKind = rapid.SampledFrom(present).Draw(t, "badkind")
	}
	for _, k := range present {
		e := CfgEntry{Fields: map[string]interface{}{}, YAML: rapid.Bool().Draw(t, "yaml")}
		for _, f := range cfgKinds[k] {
			if rapid.Bool().Draw(t, "set:"+f.Name) {
				e.Fields[f.Name] = genGoodValue(t, f.Typ)
			}
		}
		if rapid.IntRange(0, 4).Draw(t, "meta") == 0 {
			e.Fields["apiVersion"] = "config.furiko.io/v1alpha1"
			e.Fields["kind"] = "X"
		}
		if rapid.IntRange(0, 6).Draw(t, "unknown") == 0 {
			e.Fields["noSuchField"] = float64(7)
		}
		if k == badKind {
			switch mode {
			case "wrongtype":
				f := rapid.SampledFrom(cfgKinds[k]).Draw(t, "badfield")
				e.Fields[f.Name] = genBadValue(t, f.Typ)
			case "undecodable":
				e = CfgEntry{Raw: rapid.SampledFrom(undecodable).Draw(t, "raw")}
			case "badb64":
				e.BadB64 = true
			}
		}
		ev.Content[k] = e
	}
	return ev
}

func (e CfgEntry) text() string {
	if e.Fields == nil {
		return e.Raw
	}
	b, _ := json.Marshal(e.Fields)
	if e.YAML {
		if y, err := yaml.JSONToYAML(b); err == nil {
			return string(y)
		}
	}
	return string(b)
}

// parses reports whether the loader can parse this entry into an object.
func (e CfgEntry) parses() bool { return e.Fields != nil && !e.BadB64 }

type cfgModel struct {
	layers   map[string]map[string]map[string]interface{} // source -> kind -> field -> value (last accepted content)
	lastGood map[string]map[string]interface{}            // kind -> last successfully read typed view
}

func fieldOK(typ string, v interface{}) bool {
	switch typ {
	case "int":
		_, ok := v.(float64)
		return ok
	case "bool":
		_, ok := v.(bool)
		return ok
	default:
		_, ok := v.(string)
		return ok
	}
}

// expected returns the view of one kind readers must see.
func (m *cfgModel) expected(kind string) map[string]interface{} {
	merged := map[string]interface{}{}
	for k, v := range cfgDefaults[kind] {
		merged[k] = v
	}
	for _, src := range []string{"cm", "secret"} {
		for f, v := range m.layers[src][kind] {
			merged[f] = v
		}
	}
	decodes := true
	for _, f := range cfgKinds[kind] {
		if !fieldOK(f.Typ, merged[f.Name]) {
			decodes = false
		}
	}
	if !decodes {
		return m.lastGood[kind] // last known good, whole
	}
	out := map[string]interface{}{}
	for _, f := range cfgKinds[kind] {
		out[f.Name] = merged[f.Name]
	}
	m.lastGood[kind] = out
	return out
}

func deref(v reflect.Value) interface{} {
	if v.Kind() == reflect.Ptr {
		if v.IsNil() {
			return nil
		}
		v = v.Elem()
	}
	switch v.Kind() {
	case reflect.Int64:
		return float64(v.Int())
	case reflect.Bool:
		return v.Bool()
	case reflect.String:
		return v.String()
	}
	return fmt.Sprint(v.Interface())
}

func typedView(kind string, obj interface{}) map[string]interface{} {
	out := map[string]interface{}{}
	rv := reflect.ValueOf(obj).Elem()
	rt := rv.Type()
	for i := 0; i < rt.NumField(); i++ {
		tag := rt.Field(i).Tag.Get("json")
		for _, f := range cfgKinds[kind] {
			if tag == f.Name+",omitempty" || tag == f.Name {
				out[f.Name] = deref(rv.Field(i))
			}
		}
	}
	return out
}

// TestC19_layering drives the real ConfigManager + Defaults/ConfigMap/Secret
// loaders with a sequence of good and malformed updates and compares every
// read with the reference layering / last-known-good model.
func TestC19_layering(t *testing.T) {
	pbt.Check(t, pbt.Opts{ID: "C19", Name: "layering", Checks: 6000, ThoroughMul: 20,
		Rule: "sequence of 1-10 ConfigMap/Secret updates (per kind: every field independently set/unset incl. zero values; JSON or YAML; wrong-typed field, undecodable text, bad base64, one bad key among good ones), all three kinds read after every event; non-trivial = some field set in >=2 layers at once or >=1 malformed update; distinct = distinct event sequence"},
		func(t *rapid.T) CfgCase {
			n := rapid.IntRange(1, 10).Draw(t, "nevents")
			var c CfgCase
			for i := 0; i < n; i++ {
				c.Events = append(c.Events, genCfgEvent(t))
			}
			return c
		}, runCfgCase)
}

func runCfgCase(c CfgCase) pbt.Result {
	res := pbt.Result{}
	mgr := configloader.NewConfigManager()
	defaults := configloader.NewDefaultsLoader()
	cm := configloader.NewConfigMapLoader(nil, "furiko-system", "execution-dynamic-config")
	sec := configloader.NewSecretLoader(nil, "furiko-system", "execution-dynamic-config")
	mgr.AddConfigLoaders(defaults, cm, sec)
	if err := defaults.Start(context.Background()); err != nil {
		panic(err)
	}
	mgr.VerifMarkStarted()
	cfgs := controllercontext.NewContextConfigs(mgr)

	model := &cfgModel{layers: map[string]map[string]map[string]interface{}{"cm": {}, "secret": {}}, lastGood: map[string]map[string]interface{}{}}
	labels := map[string]bool{}

	read := func(step int) *pbt.Violation {
		jobs, err1 := cfgs.Jobs()
		jcs, err2 := cfgs.JobConfigs()
		cron, err3 := cfgs.Cron()
		for i, err := range []error{err1, err2, err3} {
			if err != nil {
				return pbt.V("C19", "layering/read-error", "after event %d: reading %s returned an error: %v", step, cfgKindNames[i], err)
			}
		}
		for _, kv := range []struct {
			kind string
			obj  interface{}
		}{{"jobs", jobs}, {"jobConfigs", jcs}, {"cron", cron}} {
			want := model.expected(kv.kind)
			got := typedView(kv.kind, kv.obj)
			if !reflect.DeepEqual(got, want) {
				keys := make([]string, 0)
				for k := range want {
					if !reflect.DeepEqual(got[k], want[k]) {
						keys = append(keys, fmt.Sprintf("%s: got %v want %v", k, got[k], want[k]))
					}
				}
				sort.Strings(keys)
				return pbt.V("C19", "layering/value", "after event %d: %s config differs from the layered reference: %v", step, kv.kind, keys)
			}
		}
		return nil
	}
	if v := read(-1); v != nil {
		res.Violation = v
		return res
	}
	for i, ev := range c.Events {
		// deliver to the real loader
		allParse := true
		for _, e := range ev.Content {
			if !e.parses() {
				allParse = false
			}
		}
		name := "execution-dynamic-config"
		src := ev.Source
		if src == "other" {
			name = "some-other-object"
			src = "cm"
			labels["other-object"] = true
		}
		switch src {
		case "cm":
			data := map[string]string{}
			for k, e := range ev.Content {
				data[k] = e.text()
			}
			cm.VerifHandleUpdate(&corev1.ConfigMap{ObjectMeta: metav1.ObjectMeta{Namespace: "furiko-system", Name: name}, Data: data})
		case "secret":
			data := map[string][]byte{}
			for k, e := range ev.Content {
				enc := base64.StdEncoding.EncodeToString([]byte(e.text()))
				if e.BadB64 {
					enc = "!!not*base64!!"
				}
				data[k] = []byte(enc)
			}
			sec.VerifHandleUpdate(&corev1.Secret{ObjectMeta: metav1.ObjectMeta{Namespace: "furiko-system", Name: name}, Data: data})
		}
		// model: a source's content is replaced atomically, only when all of it parses
		if ev.Source != "other" {
			if allParse {
				nl := map[string]map[string]interface{}{}
				for k, e := range ev.Content {
					nl[k] = e.Fields
				}
				model.layers[ev.Source] = nl
			} else {
				labels["malformed-update"] = true
				res.NonTrivial = true
			}
			for k, e := range ev.Content {
				for _, f := range cfgKinds[k] {
					if v, ok := e.Fields[f.Name]; ok && !fieldOK(f.Typ, v) {
						labels["wrong-typed-field"] = true
						res.NonTrivial = true
					}
				}
			}
		}
		for _, k := range cfgKindNames {
			for _, f := range cfgKinds[k] {
				_, a := model.layers["cm"][k][f.Name]
				_, b := model.layers["secret"][k][f.Name]
				if a && b {
					labels["field-in-cm-and-secret"] = true
					res.NonTrivial = true
				}
				if a || b {
					labels["field-overrides-default"] = true
					res.NonTrivial = true
				}
				for _, s := range []string{"cm", "secret"} {
					if v, ok := model.layers[s][k][f.Name]; ok && (v == float64(0) || v == false || v == "") {
						labels["zero-value-set"] = true
					}
				}
			}
		}
		if v := read(i); v != nil {
			res.Violation = v
			break
		}
	}
	for l := range labels {
		res.Labels = append(res.Labels, l)
	}
	sort.Strings(res.Labels)
	_ = configv1alpha1.JobExecutionConfigName
	return res
}

// TestKnownC19_compositeValueIgnored is the fixed reproducer of the recorded
// finding: a field set to a map/list in a higher layer is silently dropped by
// the merge while the other fields of the same update are applied, so readers
// see a partially applied source instead of the last good configuration.
func TestKnownC19_compositeValueIgnored(t *testing.T) {
	pbt.Known(t, "C19", "C19-composite-value-partially-applied", func() *pbt.Violation {
		c := CfgCase{Events: []CfgEvent{{Source: "cm", Content: map[string]CfgEntry{"jobs": {Fields: map[string]interface{}{
			"defaultTTLSecondsAfterFinished": map[string]interface{}{"a": float64(1)},
			"forceDeleteTaskTimeoutSeconds":  float64(0),
		}}}}}}
		return runCfgCase(c).Violation
	})
}
