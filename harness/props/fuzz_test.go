package props

import (
	"os"
	"testing"

	"verif/harness/pbt"
)

// fuzzable lists the sub-checks over pure functions: cheap enough per case for
// coverage-guided fuzzing to pay off (thorough tier only, time-boxed).
var fuzzable = map[string]func(*testing.T){
	"C01/fields":    TestC01_fields,
	"C14/expand":    TestC14_expand,
	"C14/distinct":  TestC14_distinct,
	"C16/job":       TestC16_job,
	"C16/jobconfig": TestC16_jobconfig,
	"C17/accepted":  TestC17_accepted,
	"C17/immutable": TestC17_immutable,
	"C18/evaluate":  TestC18_evaluate,
	"C18/render":    TestC18_render,
	"C19/layering":  TestC19_layering,
}

// FuzzSub is the single native fuzz target: VERIF_FUZZ_SUB selects the
// sub-check whose generator and oracle are driven by `go test -fuzz`.
func FuzzSub(f *testing.F) {
	fn := fuzzable[os.Getenv("VERIF_FUZZ_SUB")]
	if fn == nil {
		f.Skip("VERIF_FUZZ_SUB does not name a fuzzable sub-check")
	}
	pbt.FuzzF, pbt.FuzzName = f, os.Getenv("VERIF_FUZZ_SUB")
	fn(nil)
}
