//go:build verif

package sim

import (
	"context"
	"encoding/json"
	"fmt"
	"time"

	jsonpatch "github.com/evanphx/json-patch"
	admissionv1 "k8s.io/api/admission/v1"
	kerrors "k8s.io/apimachinery/pkg/api/errors"
	"k8s.io/apimachinery/pkg/api/meta"
	metav1 "k8s.io/apimachinery/pkg/apis/meta/v1"
	"k8s.io/apimachinery/pkg/runtime"
	kubeinformers "k8s.io/client-go/informers"
	"k8s.io/client-go/tools/cache"
	"k8s.io/client-go/tools/record"
	fakeclock "k8s.io/utils/clock/testing"

	configv1alpha1 "github.com/furiko-io/furiko/apis/config/v1alpha1"
	execution "github.com/furiko-io/furiko/apis/execution/v1alpha1"
	"github.com/furiko-io/furiko/pkg/execution/controllers/croncontroller"
	"github.com/furiko-io/furiko/pkg/execution/controllers/jobconfigcontroller"
	"github.com/furiko-io/furiko/pkg/execution/controllers/jobcontroller"
	"github.com/furiko-io/furiko/pkg/execution/controllers/jobqueuecontroller"
	"github.com/furiko-io/furiko/pkg/execution/mutation"
	"github.com/furiko-io/furiko/pkg/execution/stores/activejobstore"
	"github.com/furiko-io/furiko/pkg/execution/validation"
	"github.com/furiko-io/furiko/pkg/execution/webhooks/jobconfigmutatingwebhook"
	"github.com/furiko-io/furiko/pkg/execution/webhooks/jobconfigvalidatingwebhook"
	"github.com/furiko-io/furiko/pkg/execution/webhooks/jobmutatingwebhook"
	"github.com/furiko-io/furiko/pkg/execution/webhooks/jobvalidatingwebhook"
	furikoinformers "github.com/furiko-io/furiko/pkg/generated/informers/externalversions"
	"github.com/furiko-io/furiko/pkg/runtime/controllercontext"
	"github.com/furiko-io/furiko/pkg/runtime/controllercontext/mock"
	"github.com/furiko-io/furiko/pkg/runtime/reconciler"
	"github.com/furiko-io/furiko/pkg/utils/ktime"
)

// SimContext implements controllercontext.Context on top of the simulated API
// server and the deterministic informers.
type SimContext struct {
	clientsets *mock.Clientsets
	configs    *mock.Configs
	stores     *controllercontext.ContextStores
	Kube       *KubeFactory
	Fur        *FurikoFactory
}

type simInformers struct {
	k kubeinformers.SharedInformerFactory
	f furikoinformers.SharedInformerFactory
}

func (i *simInformers) Start(context.Context) error                     { return nil }
func (i *simInformers) Kubernetes() kubeinformers.SharedInformerFactory { return i.k }
func (i *simInformers) Furiko() furikoinformers.SharedInformerFactory   { return i.f }
func (c *SimContext) Start(ctx context.Context) error                   { return nil }
func (c *SimContext) Clientsets() controllercontext.Clientsets          { return c.clientsets }
func (c *SimContext) Configs() controllercontext.Configs                { return c.configs }
func (c *SimContext) Stores() controllercontext.Stores                  { return c.stores }
func (c *SimContext) Informers() controllercontext.Informers            { return &simInformers{c.Kube, c.Fur} }

func (c *SimContext) jobs() *DetInformer       { return c.Fur.get(&execution.Job{}) }
func (c *SimContext) jobConfigs() *DetInformer { return c.Fur.get(&execution.JobConfig{}) }
func (c *SimContext) pods() *DetInformer       { return c.Kube.get(podProto) }

func (c *SimContext) Informer(r Res) *DetInformer {
	switch r {
	case ResJobs:
		return c.jobs()
	case ResJobConfigs:
		return c.jobConfigs()
	}
	return c.pods()
}

func newSimContext(api *API, configs *mock.Configs) *SimContext {
	cs := mock.NewClientsets()
	cs.FurikoMock().PrependReactor("*", "jobs", api.React(ResJobs))
	cs.FurikoMock().PrependReactor("*", "jobconfigs", api.React(ResJobConfigs))
	cs.KubernetesMock().PrependReactor("*", "pods", api.React(ResPods))
	k, f := NewFactories(cs.Kubernetes(), cs.Furiko())
	return &SimContext{clientsets: cs, configs: configs, stores: controllercontext.NewContextStores(), Kube: k, Fur: f}
}

// CronRequest is one (JobConfig, schedule time) handed to the EnqueueHandler.
type CronRequest struct {
	Key  string    // namespace/name
	UID  string    // UID of the JobConfig object handed over
	Time time.Time // schedule time
	At   time.Time // clock at the Work() call
	Tick int       // index of the Work() call
}

type recordingEnqueue struct {
	w     *World
	inner croncontroller.EnqueueHandler
}

func (r *recordingEnqueue) EnqueueJobConfig(jc *execution.JobConfig, ts time.Time) error {
	r.w.Requests = append(r.w.Requests, CronRequest{Key: jc.Namespace + "/" + jc.Name, UID: string(jc.UID), Time: ts, At: r.w.Clock.Now(), Tick: r.w.Ticks})
	if r.inner != nil {
		return r.inner.EnqueueJobConfig(jc, ts)
	}
	return nil
}

// CronSkip is a schedule time the cron reconciler decided not to create.
type CronSkip struct {
	Key    string
	Time   time.Time
	Reason string
}

type cronRecorder struct{ w *World }

func (r *cronRecorder) CreatedJob(context.Context, *execution.JobConfig, *execution.Job) {}
func (r *cronRecorder) CreateJobFailed(_ context.Context, jc *execution.JobConfig, job *execution.Job, msg string) {
	r.w.Skips = append(r.w.Skips, CronSkip{Key: jc.Namespace + "/" + jc.Name, Reason: "invalid: " + msg, Time: scheduleTimeOf(job)})
}
func (r *cronRecorder) SkippedJobSchedule(_ context.Context, jc *execution.JobConfig, ts time.Time, msg string) {
	r.w.Skips = append(r.w.Skips, CronSkip{Key: jc.Namespace + "/" + jc.Name, Time: ts, Reason: msg})
}

// Options selects what a World runs.
type Options struct {
	Start       time.Time
	CronOnly    bool // E1: cron worker + informer worker with a recording EnqueueHandler, nothing else
	NoAdmission bool
}

// World is one simulated cluster plus one controller process and one webhook process.
type World struct {
	Opts  Options
	Clock *fakeclock.FakeClock
	API   *API
	Cfg   *mock.Configs
	Ctrl  *SimContext // the execution-controller process (nil while crashed)
	Hook  *SimContext // the execution-webhook process

	QCron, QJob, QJobConfig, QPer, QInd *Queue
	cCron, cJob, cJobConfig, cPer, cInd *reconciler.Controller
	CronWorker                          *croncontroller.CronWorker
	cronCtx                             *croncontroller.Context
	Store                               *activejobstore.Store

	Requests []CronRequest
	Skips    []CronSkip
	Ticks    int
	Restarts int
	Mid          *MidPlan // armed mid-reconcile delivery (see MidPlan)
	ListOrder    []Res    // order of the initial LISTs of the next StartProcess (nil = AllRes)
	MidDelivered int
	// OnMid, when set, is told of every watch event that reaches the controller's
	// caches in the middle of a reconcile, before it is applied: the resource, the
	// key and what the cache held for it (nil = nothing).
	OnMid func(r Res, key string, old runtime.Object)
	// captured at every StartProcess
	StartedAt        time.Time
	PersistedAtStart map[string]time.Time // JobConfig key -> status.lastScheduled in the store at start
	RequestsAtStart  int

	mutJob  *jobmutatingwebhook.Webhook
	valJob  *jobvalidatingwebhook.Webhook
	mutJC   *jobconfigmutatingwebhook.Webhook
	valJC   *jobconfigvalidatingwebhook.Webhook
	Alive   bool
	Steps   int
	StepLog []string
}

var gvkJob = metav1.GroupVersionKind{Group: "execution.furiko.io", Version: "v1alpha1", Kind: "Job"}
var gvkJobConfig = metav1.GroupVersionKind{Group: "execution.furiko.io", Version: "v1alpha1", Kind: "JobConfig"}

// NewWorld builds the cluster and the webhook process; call StartProcess to
// boot the controllers.
func NewWorld(o Options) *World {
	if o.Start.IsZero() {
		o.Start = time.Date(2032, 3, 4, 5, 6, 7, 0, time.UTC)
	}
	w := &World{Opts: o, Clock: fakeclock.NewFakeClock(o.Start)}
	ktime.Clock = w.Clock
	croncontroller.Clock = w.Clock
	mutation.Clock = w.Clock
	validation.Clock = w.Clock
	w.API = NewAPI(w.Clock, "ctrl", "hook")
	w.API.MidHook = w.midHook
	w.Cfg = mock.NewConfigs()
	if err := w.Cfg.Start(context.Background()); err != nil {
		panic(err)
	}
	w.Hook = newSimContext(w.API, w.Cfg)
	var err error
	if w.mutJob, err = jobmutatingwebhook.NewWebhook(w.Hook); err != nil {
		panic(err)
	}
	if w.valJob, err = jobvalidatingwebhook.NewWebhook(w.Hook); err != nil {
		panic(err)
	}
	if w.mutJC, err = jobconfigmutatingwebhook.NewWebhook(w.Hook); err != nil {
		panic(err)
	}
	if w.valJC, err = jobconfigvalidatingwebhook.NewWebhook(w.Hook); err != nil {
		panic(err)
	}
	if !o.NoAdmission {
		w.API.Admit = w.admit
	}
	return w
}

// SetConfig overrides dynamic configuration (takes effect at once, as a
// ConfigMap update does after its informer delivered it).
func (w *World) SetConfig(name configv1alpha1.ConfigName, cfg runtime.Object) {
	w.Cfg.SetConfigs(map[configv1alpha1.ConfigName]runtime.Object{name: cfg})
}

type handler interface {
	Handle(context.Context, *admissionv1.AdmissionRequest) (*admissionv1.AdmissionResponse, error)
}

// admit runs the real mutating webhook, applies its patch with the JSON-patch
// library the API server uses, then runs the real validating webhook.
func (w *World) admit(r Res, op string, old, obj runtime.Object) (runtime.Object, error) {
	var mut, val handler
	gvk := gvkJob
	if r == ResJobs {
		mut, val = w.mutJob, w.valJob
	} else {
		mut, val, gvk = w.mutJC, w.valJC, gvkJobConfig
	}
	raw, err := json.Marshal(obj)
	if err != nil {
		return nil, err
	}
	req := &admissionv1.AdmissionRequest{Kind: gvk, Operation: admissionv1.Operation(op), Object: runtime.RawExtension{Raw: raw}}
	if old != nil {
		oldRaw, _ := json.Marshal(old)
		req.OldObject = runtime.RawExtension{Raw: oldRaw}
	}
	resp, err := mut.Handle(context.Background(), req)
	if err != nil {
		return nil, kerrors.NewInternalError(err)
	}
	if !resp.Allowed {
		return nil, &kerrors.StatusError{ErrStatus: *resp.Result}
	}
	if len(resp.Patch) > 0 {
		p, err := jsonpatch.DecodePatch(resp.Patch)
		if err != nil {
			return nil, kerrors.NewInternalError(err)
		}
		if raw, err = p.Apply(raw); err != nil {
			return nil, kerrors.NewInternalError(fmt.Errorf("cannot apply admission patch: %v", err))
		}
	}
	req.Object = runtime.RawExtension{Raw: raw}
	resp, err = val.Handle(context.Background(), req)
	if err != nil {
		return nil, kerrors.NewInternalError(err)
	}
	if !resp.Allowed {
		return nil, &kerrors.StatusError{ErrStatus: *resp.Result}
	}
	out := newOf(r)
	if err := json.Unmarshal(raw, out); err != nil {
		return nil, kerrors.NewInternalError(err)
	}
	return out, nil
}

// StartProcess boots (or re-boots) the controller process: fresh informers
// filled from a LIST of the store, fresh queues, heap, counters.
func (w *World) StartProcess() error {
	w.Ctrl = newSimContext(w.API, w.Cfg)
	w.API.Crashed = false
	w.API.Crash = nil
	ctx := w.Ctrl
	rec := &record.FakeRecorder{}
	var err error

	if !w.Opts.CronOnly {
		w.Store, err = activejobstore.NewStore(ctx)
		if err != nil {
			return err
		}
		ctx.stores.Register(w.Store)
	}

	// cron controller
	w.cronCtx = croncontroller.NewContext(ctx)
	w.QCron = NewQueue("cron")
	w.cronCtx.VerifSetQueue(w.QCron)
	croncontroller.NewInformerWorker(w.cronCtx, croncontroller.NewUpdateHandler(w.cronCtx)).Init()
	enq := &recordingEnqueue{w: w}
	if !w.Opts.CronOnly {
		enq.inner = croncontroller.VerifNewEnqueueHandler(w.cronCtx)
	}
	w.CronWorker = croncontroller.NewCronWorker(w.cronCtx, enq)

	if !w.Opts.CronOnly {
		crec := &cronRecorder{w: w}
		cronRecon := croncontroller.NewReconciler(w.cronCtx,
			croncontroller.NewExecutionControl("cron", ctx.Clientsets().Furiko().ExecutionV1alpha1(), crec), crec, w.Store, nil)
		w.cCron = reconciler.NewController(cronRecon, w.QCron)

		// job controller
		jctx := jobcontroller.NewContextWithRecorder(ctx, rec)
		w.QJob = NewQueue("job")
		jctx.VerifSetQueue(w.QJob)
		jobcontroller.NewInformerWorker(jctx)
		w.cJob = reconciler.NewController(jobcontroller.NewReconciler(jctx, nil), w.QJob)

		// job queue controller
		qctx := jobqueuecontroller.NewContextWithRecorder(ctx, rec)
		w.QPer, w.QInd = NewQueue("jobqueue-perconfig"), NewQueue("jobqueue-independent")
		qctx.VerifSetQueues(w.QPer, w.QInd)
		jobqueuecontroller.NewInformerWorker(qctx)
		jc := jobqueuecontroller.NewJobControl(ctx.Clientsets().Furiko().ExecutionV1alpha1(), rec)
		w.cPer = reconciler.NewController(jobqueuecontroller.NewPerConfigReconciler(qctx, nil, jc), w.QPer)
		w.cInd = reconciler.NewController(jobqueuecontroller.NewIndependentReconciler(qctx, nil, jc), w.QInd)

		// job config controller
		jcctx := jobconfigcontroller.NewContextWithRecorder(ctx, rec)
		w.QJobConfig = NewQueue("jobconfig")
		jcctx.VerifSetQueue(w.QJobConfig)
		jobconfigcontroller.NewInformerWorker(jcctx)
		w.cJobConfig = reconciler.NewController(jobconfigcontroller.NewReconciler(jcctx, nil), w.QJobConfig)
	}

	// initial LIST: the caches start from the store as it is now; undelivered
	// events of the previous process are gone with it.
	// The informers of a real process sync independently of each other, so the
	// handlers of one resource may fire before another resource's cache is filled:
	// the order is the caller's choice (ListOrder, default jobconfigs-jobs-pods).
	order := AllRes
	if len(w.ListOrder) == len(AllRes) {
		order = w.ListOrder
	}
	for _, r := range AllRes {
		w.API.Pending["ctrl"][r] = nil
	}
	for _, r := range order {
		for _, o := range w.API.List(r) {
			ctx.Informer(r).Deliver("ADDED", o)
		}
	}

	if !w.Opts.CronOnly {
		if err := w.Store.Recover(context.Background()); err != nil {
			return err
		}
	}
	if err := w.CronWorker.Init(); err != nil {
		// production logs and continues; the heap stays nil and Work() would panic -
		// surface it to the caller instead.
		return fmt.Errorf("cron worker init: %w", err)
	}
	w.Alive = true
	w.Restarts++
	w.StartedAt = w.Clock.Now()
	w.PersistedAtStart = map[string]time.Time{}
	for _, jc := range w.API.JobConfigs() {
		if jc.Status.LastScheduled != nil {
			w.PersistedAtStart[jc.Namespace+"/"+jc.Name] = jc.Status.LastScheduled.Time
		}
	}
	w.RequestsAtStart = len(w.Requests)
	return nil
}

// Kill discards the controller process: queues, caches, heap, counters.
func (w *World) Kill() {
	w.Alive = false
	w.Ctrl = nil
	w.CronWorker = nil
	w.Store = nil
	w.API.Crashed = false
	w.API.Crash = nil
}

// Queues returns the controller queues in a fixed order.
func (w *World) Queues() []*Queue {
	if w.Opts.CronOnly {
		return nil
	}
	return []*Queue{w.QCron, w.QPer, w.QInd, w.QJob, w.QJobConfig}
}

func (w *World) controllerFor(q *Queue) (*reconciler.Controller, string) {
	switch q {
	case w.QCron:
		return w.cCron, "cron"
	case w.QPer:
		return w.cPer, "jobqueue"
	case w.QInd:
		return w.cInd, "jobqueue"
	case w.QJob:
		return w.cJob, "job"
	case w.QJobConfig:
		return w.cJobConfig, "jobconfig"
	}
	return nil, ""
}

// StepQueue processes one item of q through the real retry wrapper. Returns
// false if there was nothing to do.
func (w *World) StepQueue(q *Queue) bool {
	if !w.Alive || q == nil || q.Len() == 0 {
		return false
	}
	c, actor := w.controllerFor(q)
	w.API.BeginStep(actor)
	c.VerifProcessNextItem(context.Background())
	w.API.EndStep()
	w.Steps++
	if w.API.Crashed {
		w.Kill()
	}
	return true
}

// MidPlan: just before the AtCall-th next create/update issued by a controller,
// up to Count (0 = all) pending events of Res reach the controller's cache - a
// watch event overtaking a reconcile that is still running, as informer
// goroutines do in production. One-shot.
type MidPlan struct {
	AtCall int `json:"atCall"`
	Res    Res `json:"res"`
	Count  int `json:"count,omitempty"`
	seen   int
}

func (w *World) midHook() {
	p := w.Mid
	if p == nil || !w.Alive || w.Ctrl == nil || w.API.Actor == "informer" || w.API.Actor == "user" || w.API.Actor == "kubelet" {
		return
	}
	p.seen++
	if p.seen < p.AtCall {
		return
	}
	w.Mid = nil
	evs := w.API.Pending["ctrl"][p.Res]
	n := p.Count
	if n <= 0 || n > len(evs) {
		n = len(evs)
	}
	if n == 0 {
		return
	}
	w.API.Pending["ctrl"][p.Res] = evs[n:]
	w.API.ShiftStepIdx("ctrl", p.Res, n)
	actor := w.API.Actor
	w.API.Actor = "informer"
	for _, ev := range evs[:n] {
		if w.OnMid != nil {
			key, _ := cache.MetaNamespaceKeyFunc(ev.Obj)
			w.OnMid(p.Res, key, w.Ctrl.Informer(p.Res).Cached(key))
		}
		w.Ctrl.Informer(p.Res).Deliver(ev.Type, ev.Obj)
	}
	w.API.Actor = actor
	w.MidDelivered += n
}

// CronTick runs one CronWorker.Work().
func (w *World) CronTick() {
	if !w.Alive {
		return
	}
	w.API.BeginStep("cronworker")
	w.Ticks++
	w.CronWorker.Work()
	w.API.EndStep()
}

// Advance moves the clock and releases every armed deferred re-sync.
func (w *World) Advance(d time.Duration) {
	w.Clock.Step(d)
	if w.Alive {
		for _, q := range w.Queues() {
			q.ReleaseArmed(w.Clock.Now())
		}
	}
}

// Deliver hands up to n pending watch events of a resource to a cache set
// ("ctrl" or "hook"); n <= 0 means all. Returns the number delivered.
func (w *World) Deliver(set string, r Res, n int) int {
	evs := w.API.Pending[set][r]
	if n <= 0 || n > len(evs) {
		n = len(evs)
	}
	if n == 0 {
		return 0
	}
	w.API.Pending[set][r] = evs[n:]
	var sc *SimContext
	if set == "hook" {
		sc = w.Hook
	} else {
		sc = w.Ctrl
	}
	if sc == nil { // process is down: events are lost with it (it will LIST on restart)
		return n
	}
	w.API.BeginStep("informer")
	for _, ev := range evs[:n] {
		sc.Informer(r).Deliver(ev.Type, ev.Obj)
	}
	return n
}

// PendingCount returns the number of undelivered events for a cache set.
func (w *World) PendingCount(set string) int {
	n := 0
	for _, r := range AllRes {
		n += len(w.API.Pending[set][r])
	}
	return n
}

// DeliverAll delivers everything to both cache sets.
func (w *World) DeliverAll() int {
	n := 0
	for _, r := range AllRes {
		n += w.Deliver("hook", r, 0)
		n += w.Deliver("ctrl", r, 0)
	}
	return n
}

// Resync delivers an old==new update for every cached object of a resource.
func (w *World) Resync(r Res) {
	if w.Alive {
		w.API.BeginStep("informer")
		w.Ctrl.Informer(r).Resync()
	}
}

// Settle delivers all events and runs every queue until nothing is pending.
// It never advances the clock, never ticks cron and never resyncs. Returns
// false if the bound was exceeded (livelock; inconclusive, never a verdict).
func (w *World) Settle(bound int) bool {
	for i := 0; i < bound; i++ {
		progress := w.DeliverAll() > 0
		if w.Alive {
			for _, q := range w.Queues() {
				for j := 0; j < 50 && q.Len() > 0 && w.Alive; j++ {
					w.StepQueue(q)
					progress = true
				}
			}
		}
		if !progress {
			return true
		}
	}
	return false
}

// ---- users ----

func (w *World) asUser() { w.API.BeginStep("user") }

func (w *World) UserCreate(r Res, obj runtime.Object) (runtime.Object, error) {
	w.asUser()
	return w.API.Create(r, obj)
}

// UserUpdate applies mutate to the latest stored version and writes it back.
func (w *World) UserUpdate(r Res, key string, mutate func(runtime.Object)) error {
	w.asUser()
	cur := w.API.Get(r, key)
	if cur == nil {
		return kerrors.NewNotFound(groupResource(r), key)
	}
	mutate(cur)
	_, err := w.API.Update(r, cur, "")
	return err
}

func (w *World) UserDelete(r Res, ns, name string) error {
	w.asUser()
	return w.API.Delete(r, ns, name, nil)
}

// GC removes Jobs whose owner JobConfig is gone and Pods whose owner Job is
// gone (background garbage collection), as the "gc" actor.
func (w *World) GC() int {
	w.API.BeginStep("gc")
	n := 0
	jcs := map[string]bool{}
	for _, jc := range w.API.JobConfigs() {
		jcs[string(jc.UID)] = true
	}
	for _, j := range w.API.Jobs() {
		if ref := metav1.GetControllerOf(j); ref != nil && ref.Kind == "JobConfig" && !jcs[string(ref.UID)] && j.DeletionTimestamp == nil {
			_ = w.API.Delete(ResJobs, j.Namespace, j.Name, nil)
			n++
		}
	}
	jobs := map[string]bool{}
	for _, j := range w.API.Jobs() {
		jobs[string(j.UID)] = true
	}
	for _, p := range w.API.Pods() {
		if ref := metav1.GetControllerOf(p); ref != nil && ref.Kind == "Job" && !jobs[string(ref.UID)] && p.DeletionTimestamp == nil {
			_ = w.API.Delete(ResPods, p.Namespace, p.Name, nil)
			n++
		}
	}
	return n
}

func scheduleTimeOf(j *execution.Job) time.Time {
	if j == nil {
		return time.Time{}
	}
	var ts int64
	if _, err := fmt.Sscanf(j.Annotations["execution.furiko.io/schedule-time"], "%d", &ts); err != nil {
		return time.Time{}
	}
	return time.Unix(ts, 0)
}

func accessor(o runtime.Object) metav1.Object {
	a, _ := meta.Accessor(o)
	return a
}
