#!/usr/bin/env python3
"""Sensitivity runner: applies one source mutation at a time to a scratch
worktree of /repo (never to /repo itself), runs the named checks against that
worktree at reduced scale (./check <ID> --repo <worktree>), reverts, and prints
a table. A mutation counts only if it compiles; --tests also runs the mutated
package's own unit tests (a mutation that those tests catch is not interesting).

  tools/sens.py [--only ID[,ID]] [--tests] [--scale PCT] [--jobs N] [--out FILE]

Worktrees live under /tmp/sens-wt-<k> and are removed at the end.
"""
import argparse, json, os, subprocess, sys, time, threading, queue
ROOT = os.path.dirname(os.path.dirname(os.path.abspath(__file__)))
MUTS = json.load(open(os.path.join(ROOT, "tools", "mutations.json")))
ENV = dict(os.environ, GOFLAGS="-mod=mod", GOPROXY="off", GOSUMDB="off", GOTOOLCHAIN="local")

def sh(cmd, cwd=None, timeout=3600):
    try:
        return subprocess.run(cmd, shell=True, cwd=cwd, env=ENV, stdout=subprocess.PIPE, stderr=subprocess.STDOUT, text=True, timeout=timeout)
    except subprocess.TimeoutExpired as e:
        class R: returncode = 2; stdout = "timeout"
        return R()

def run_one(m, wt, a):
    path = os.path.join(wt, m["file"])
    src = open(path).read()
    if src.count(m["old"]) < 1:
        return (m["id"], "STALE (pattern not found)", "", "")
    open(path, "w").write(src.replace(m["old"], m["new"], 1))
    try:
        pkg = "./" + os.path.dirname(m["file"]) + "/"
        b = sh("go build %s" % pkg, wt)
        if b.returncode != 0:
            return (m["id"], "does not compile", "", b.stdout[-200:].replace("\n", " "))
        tests = ""
        if a.tests:
            t = sh("go test -count=1 -vet=off %s" % pkg, wt)
            tests = "unit tests pass" if t.returncode == 0 else "UNIT TESTS FAIL"
        res = []
        for p in m["props"]:
            t0 = time.time()
            r = sh("./check %s --scale %d --repo %s" % (p, a.scale, wt), ROOT)
            sig = ""
            for line in r.stdout.splitlines():
                if "violated oracle" in line:
                    sig = line.strip()[16:110]; break
            res.append("%s:%s(%.0fs)%s" % (p, {0: "green", 1: "RED", 2: "inconclusive"}.get(r.returncode, r.returncode), time.time() - t0, " " + sig if sig else ""))
        return (m["id"], "; ".join(res), tests, m.get("note", ""))
    finally:
        open(path, "w").write(src)

def main():
    ap = argparse.ArgumentParser()
    ap.add_argument("--only", default="")
    ap.add_argument("--tests", action="store_true")
    ap.add_argument("--scale", type=int, default=50)
    ap.add_argument("--jobs", type=int, default=3)
    ap.add_argument("--out", default="")
    a = ap.parse_args()
    only = set(x for x in a.only.split(",") if x)
    todo = [m for m in MUTS if not only or m["id"] in only or (set(m["props"]) & only)]
    q = queue.Queue()
    for i, m in enumerate(todo):
        q.put((i, m))
    rows = [None] * len(todo)
    def worker(k):
        wt = "/tmp/sens-wt-%d" % k
        sh("git -C /repo worktree remove --force %s" % wt)
        r = sh("git -C /repo worktree add -q --detach %s HEAD" % wt)
        if r.returncode != 0:
            print(r.stdout, file=sys.stderr); return
        try:
            while True:
                try:
                    i, m = q.get_nowait()
                except queue.Empty:
                    return
                rows[i] = run_one(m, wt, a)
                print(" | ".join(rows[i]), flush=True)
        finally:
            sh("git -C /repo worktree remove --force %s" % wt)
            sh("git -C /repo worktree prune")
    ts = [threading.Thread(target=worker, args=(k,)) for k in range(a.jobs)]
    for t in ts: t.start()
    for t in ts: t.join()
    if a.out:
        with open(a.out, "w") as f:
            for r in rows:
                if r: f.write(" | ".join(r) + "\n")

if __name__ == "__main__":
    main()
