package props

import (
	"encoding/json"
	"fmt"
	"os"
	"reflect"
	"sort"
	"strconv"
	"strings"
	"testing"
	"time"

	corev1 "k8s.io/api/core/v1"
	metav1 "k8s.io/apimachinery/pkg/apis/meta/v1"
	"pgregory.net/rapid"

	execution "github.com/furiko-io/furiko/apis/execution/v1alpha1"
	"github.com/furiko-io/furiko/pkg/execution/controllers/croncontroller"
	"github.com/furiko-io/furiko/pkg/execution/util/jobconfig"

	"verif/harness/pbt"
	"verif/harness/sim"
)

// ================= C09: single-fault sweep over every job-controller API call =================

type SweepCase struct {
	Trace E2Trace `json:"trace"`
	K     int     `json:"k"`    // 0 = sweep every position (thorough)
	Kind  string  `json:"kind"` // "" = every kind
}

var sweepKinds = []sim.FaultKind{sim.FaultCrashBefore, sim.FaultCrashAfter, sim.FaultReject, sim.FaultCommitTimeout}

var scriptProfile = e2Profile{name: "script", maxJCs: 1, lag: false, steps: 28, maxJobs: 2, foreignPods: true,
	weights: map[string]int{"kill": 0, "deleteJob": 1, "deletePod": 1, "settle": 14, "advance": 4, "plantPod": 1, "k-flap": 0}}

// jobCalls lists the ledger entries made by the job controller in a fault-free run.
func jobCalls(tr E2Trace) []*sim.Entry {
	r := newE2Run(&tr, false)
	for _, op := range tr.Ops {
		r.apply(op)
	}
	r.settle()
	var out []*sim.Entry
	for _, e := range r.w.API.Ledger {
		if e.Actor == "job" {
			out = append(out, e)
		}
	}
	return out
}

func genSweepCase(t *rapid.T) SweepCase {
	tr := genE2Setup(t, scriptProfile)
	// small workloads: at most 3 indexes and 3 attempts
	for i := range tr.JCs {
		if tr.JCs[i].ParN > 3 {
			tr.JCs[i].ParN = 2
		}
		if tr.JCs[i].MaxAttempts != nil && *tr.JCs[i].MaxAttempts > 3 {
			three := int64(3)
			tr.JCs[i].MaxAttempts = &three
		}
	}
	tr.AutoRestart = true
	genE2Ops(t, tr, scriptProfile)
	c := SweepCase{Trace: *tr}
	if !pbt.Thorough() {
		n := len(jobCalls(c.Trace))
		if n == 0 {
			n = 1
		}
		c.K = rapid.IntRange(1, n).Draw(t, "k")
		c.Kind = string(rapid.SampledFrom(sweepKinds).Draw(t, "kind"))
	}
	return c
}

func runSweepCase(c SweepCase) pbt.Result {
	calls := jobCalls(c.Trace)
	res := pbt.Result{Extra: map[string]int{"job-controller-calls": len(calls)}}
	labels := map[string]bool{}
	positions := []int{c.K}
	kinds := []sim.FaultKind{sim.FaultKind(c.Kind)}
	if c.K == 0 {
		positions = positions[:0]
		for k := 1; k <= len(calls); k++ {
			positions = append(positions, k)
		}
		kinds = sweepKinds
		labels["exhaustive-single-fault-sweep"] = true
	}
	for _, k := range positions {
		if k < 1 || k > len(calls) {
			continue
		}
		e := calls[k-1]
		between := e.Verb == "create" && e.Res == sim.ResPods
		if k >= 2 && e.Verb == "updateStatus" && calls[k-2].Verb == "create" && calls[k-2].Res == sim.ResPods {
			between = true
		}
		for _, kind := range kinds {
			tr := c.Trace
			tr.Ops = append([]E2Op{{K: "fault", F: &sim.Fault{Actor: "job", Nth: k, Count: 1, Kind: kind}}}, c.Trace.Ops...)
			one := runE2(tr, map[string]bool{"C09": true, "C08": true, "C13": true})
			res.Extra["fault-runs"]++
			if between {
				res.NonTrivial = true
				labels["fault-between-create-and-record"] = true
			}
			labels["kind:"+string(kind)] = true
			for _, l := range one.Labels {
				if l == "foreign-pod" || l == "restart" {
					labels[l] = true
				}
			}
			if one.Violation != nil {
				v := *one.Violation
				v.Message = fmt.Sprintf("single fault %s at job-controller call %d of %d (%s %s %s): %s", kind, k, len(calls), e.Verb, e.Res, e.Key, v.Message)
				if v.Property != "C09" {
					v.Signature = v.Property + "/" + v.Signature
					v.Property = "C09"
				}
				res.Violation = &v
				res.Labels = sortedLabels(labels)
				return res
			}
		}
	}
	res.Labels = sortedLabels(labels)
	return res
}

func TestC09_sweep(t *testing.T) {
	pbt.Check(t, pbt.Opts{ID: "C09", Name: "sweep", Checks: 500, ThoroughMul: 1,
		Rule: "small scripted workload (<= 2 Jobs, <= 3 indexes, <= 3 attempts, optional foreign Pod) run fault-free to count the job controller's API calls n; then call position k x {crash before, crash after apply, rejected, applied-but-reported-failed} is injected (quick: one sampled (k, kind) per workload; thorough: every k in 1..n x every kind), the controller restarts after a crash, and the run is driven to quiescence under the C09/C08/C13 monitors; non-trivial = the fault landed on a Pod create or on the status write that records it; distinct = distinct (workload, k, kind)"},
		genSweepCase, runSweepCase)
}

// ================= C20: differential against the fault-free run, phase by phase =================

type C20Case struct {
	Start    int64         `json:"start"`
	Cfg      E2Cfg         `json:"cfg"`
	JCs      []E2JC        `json:"jcs"`
	Phases   [][]E2Op      `json:"phases"`
	Faults   [][]sim.Fault `json:"faults"` // per phase, active only while B settles that phase
	ListSalt uint64        `json:"listSalt,omitempty"`
}

// worldAbs is the observable outcome of a world, up to what the API leaves
// undefined: Jobs of one JobConfig created within the same second are
// interchangeable (FIFO is only defined between different creation seconds),
// and when the cron controller legitimately skipped a schedule time (Forbid at
// the limit, queue full) it is undefined *which* of the competing schedule
// times got its Job, so such JobConfigs are compared by the multiset of their
// Jobs' states only.
type worldAbs struct {
	Strict  map[string]string // group -> multiset of Job states (and their Pods)
	Relaxed map[string]string // JobConfig -> multiset of Job states, without schedule identity
	Skipped map[string]bool   // JobConfig had cron skips
	Counts  map[string]int64
}

func jobState(j *execution.Job, pods []*corev1.Pod) string {
	var ts []string
	for _, t := range j.Status.Tasks {
		// Task-level labels (Killed vs lost) may legitimately differ when the write that
		// carried the label was the one that failed; finished-ness and success may not.
		// A Job that is being deleted removes its own tasks in the sync whose status
		// write may be the one that fails, so there even success is not compared.
		ts = append(ts, fmt.Sprintf("%s:fin=%v:succeeded=%v", strings.TrimPrefix(t.Name, j.Name), t.FinishTimestamp != nil, t.Status.Result == execution.TaskSucceeded && j.DeletionTimestamp == nil))
	}
	sort.Strings(ts)
	var ps []string
	for _, p := range pods {
		if ref := metav1.GetControllerOf(p); ref != nil && ref.UID == j.UID {
			ps = append(ps, fmt.Sprintf("%s:phase=%s:deleting=%v", strings.TrimPrefix(p.Name, j.Name), p.Status.Phase, p.DeletionTimestamp != nil))
		}
	}
	sort.Strings(ps)
	res := ""
	if f := j.Status.Condition.Finished; f != nil {
		res = string(f.Result)
	}
	return fmt.Sprintf("phase=%s result=%s started=%v admErr=%v deleting=%v tasks=%v pods=%v", j.Status.Phase, res, isStarted(j), hasAdmErr(j), j.DeletionTimestamp != nil, ts, ps)
}

func abstractWorld(w *sim.World) worldAbs {
	a := worldAbs{Strict: map[string]string{}, Relaxed: map[string]string{}, Skipped: map[string]bool{}, Counts: map[string]int64{}}
	for _, sk := range w.Skips {
		_, n := splitKey(sk.Key)
		a.Skipped[n] = true
	}
	pods := w.API.Pods()
	strict, relaxed := map[string][]string{}, map[string][]string{}
	for _, j := range w.API.Jobs() {
		st := jobState(j, pods)
		if ref := metav1.GetControllerOf(j); ref != nil && ref.Kind == "JobConfig" {
			g := fmt.Sprintf("%s@%d[%s]", ref.Name, j.CreationTimestamp.Unix(), policyOf(j))
			strict[g] = append(strict[g], st)
			// a schedule time refused by the queue controller (Forbid at the limit) and one
			// skipped by the cron controller's own pre-check are the same outcome: no run
			if !(hasAdmErr(j) && !isStarted(j)) {
				relaxed[ref.Name] = append(relaxed[ref.Name], fmt.Sprintf("[%s] %s", policyOf(j), st))
			}
		} else {
			strict[j.Name] = append(strict[j.Name], st)
		}
	}
	for g, l := range strict {
		sort.Strings(l)
		a.Strict[g] = strings.Join(l, " || ")
	}
	for g, l := range relaxed {
		sort.Strings(l)
		a.Relaxed[g] = strings.Join(l, " || ")
	}
	for _, jc := range w.API.JobConfigs() {
		// lastScheduled / lastExecuted are derived from the Jobs the controller happened
		// to see before they were deleted, which depends on processing order even
		// without faults; their lower bound against the surviving Jobs is C15's
		// quiescent check, which runs on B.
		a.Strict["jobconfig "+jc.Name] = fmt.Sprintf("state=%s active=%d queued=%d", jc.Status.State, jc.Status.Active, jc.Status.Queued)
		a.Relaxed["jobconfig "+jc.Name] = fmt.Sprintf("state=%s active=%d queued=%d", jc.Status.State, jc.Status.Active, jc.Status.Queued)
		if w.Store != nil {
			a.Counts[jc.Name] = w.Store.CountActiveJobsForConfig(jc)
		}
	}
	return a
}

func groupJC(g string) string {
	g = strings.TrimPrefix(g, "jobconfig ")
	if i := strings.IndexByte(g, '@'); i >= 0 {
		return g[:i]
	}
	return g
}

func diffAbs(a, b worldAbs) string {
	var out []string
	cmp := func(kind string, x, y map[string]string, use func(string) bool) {
		keys := map[string]bool{}
		for k := range x {
			keys[k] = true
		}
		for k := range y {
			keys[k] = true
		}
		ks := make([]string, 0, len(keys))
		for k := range keys {
			ks = append(ks, k)
		}
		sort.Strings(ks)
		for _, k := range ks {
			if use(k) && x[k] != y[k] {
				out = append(out, fmt.Sprintf("%s %s: fault-free {%s} vs faulty {%s}", kind, k, x[k], y[k]))
			}
		}
	}
	skipped := func(k string) bool { return a.Skipped[groupJC(k)] || b.Skipped[groupJC(k)] }
	cmp("", a.Strict, b.Strict, func(k string) bool { return !skipped(k) })
	cmp("(schedule identity ignored)", a.Relaxed, b.Relaxed, skipped)
	if !reflect.DeepEqual(a.Counts, b.Counts) {
		out = append(out, fmt.Sprintf("active counters: fault-free %v vs faulty %v", a.Counts, b.Counts))
	}
	if len(out) > 4 {
		out = append(out[:4], fmt.Sprintf("... and %d more", len(out)-4))
	}
	return strings.Join(out, "; ")
}

var c20Profile = e2Profile{name: "c20", maxJCs: 2, cron: true, lag: false, steps: 40, confluent: true,
	// no re-delivery of old cron keys here: a Job whose earlier incarnation was already
	// TTL-deleted is created again, which makes two Jobs of one JobConfig share a
	// creation second with this phase's tick (ties break confluence; C02 covers re-delivery)
	weights: map[string]int{"settle": 0, "k-flap": 0, "requeueCron": 0}}

// genC20 generates the workload against a live fault-free world; a "settle" is
// implied at the end of every phase.
func genC20(t *rapid.T) C20Case {
	tr := genE2Setup(t, c20Profile)
	c := C20Case{Start: tr.Start, Cfg: tr.Cfg, JCs: tr.JCs, ListSalt: tr.ListSalt}
	nph := rapid.IntRange(2, 7).Draw(t, "nphases")
	r := newE2Run(tr, false)
	for ph := 0; ph < nph; ph++ {
		sub := &E2Trace{Start: tr.Start, Cfg: tr.Cfg, JCs: tr.JCs, ListSalt: tr.ListSalt}
		pp := c20Profile
		pp.steps = rapid.IntRange(1, 6).Draw(t, "phaseops")
		genOpsOn(t, r, sub, pp, ph*10)
		c.Phases = append(c.Phases, sub.Ops)
		r.settle()
		nf := rapid.IntRange(1, 3).Draw(t, "nfaults")
		var fs []sim.Fault
		for i := 0; i < nf; i++ {
			f := sim.Fault{
				Actor: rapid.SampledFrom([]string{"", "job", "jobqueue", "jobconfig", "cron"}).Draw(t, "factor"),
				Verb:  rapid.SampledFrom([]string{"", "create", "update", "updateStatus", "delete"}).Draw(t, "fverb"),
				Nth:   rapid.IntRange(1, 4).Draw(t, "fnth"), Count: rapid.IntRange(1, 4).Draw(t, "fcount"),
				Kind: rapid.SampledFrom([]sim.FaultKind{sim.FaultReject, sim.FaultTimeout, sim.FaultConflict, sim.FaultCommitTimeout}).Draw(t, "fkind"),
			}
			if f.Kind == sim.FaultCommitTimeout && (f.Actor == "" || f.Actor == "jobqueue") && (f.Verb == "" || f.Verb == "updateStatus") {
				f.Actor, f.Name = "job", "excluded" // open finding E2-start-commit-timeout, excluded by construction
			}
			fs = append(fs, f)
		}
		c.Faults = append(c.Faults, fs)
	}
	return c
}

func runC20(c C20Case) pbt.Result {
	res := pbt.Result{Extra: map[string]int{}}
	labels := map[string]bool{}
	base := E2Trace{Start: c.Start, Cfg: c.Cfg, JCs: c.JCs, Profile: "c20", ListSalt: c.ListSalt}
	// A: fault-free
	var absA []worldAbs
	ra := newE2Run(&base, false)
	debug := os.Getenv("VERIF_DEBUG") != ""
	dbg := func(r *e2run, tag string) {
		if debug {
			r.w.API.OnEntry = append(r.w.API.OnEntry, func(e *sim.Entry) {
				fmt.Printf("   %s ledger %s %s %s %s applied=%v removed=%v err=%.80s\n", tag, e.Actor, e.Verb, e.Res, e.Key, e.Applied, e.Removed, e.Err)
			})
		}
	}
	dbg(ra, "A")
	for i, ph := range c.Phases {
		for _, op := range ph {
			if debug {
				b, _ := json.Marshal(op)
				fmt.Printf("A phase %d OP %s (clock %s)\n", i, b, ra.w.Clock.Now().UTC().Format("15:04:05.000"))
			}
			ra.apply(op)
		}
		if debug {
			fmt.Printf("A phase %d SETTLE\n", i)
		}
		if !ra.settle() {
			res.Labels = []string{"inconclusive-livelock"}
			return res
		}
		absA = append(absA, abstractWorld(ra.w))
		if debug {
			ra.dump()
		}
	}
	// B: the same phases, each settled under its fault pattern first
	baseB := base
	rb := newE2Run(&baseB, true)
	rb.mon.props = nil
	dbg(rb, "B")
	hit := 0
	for i, ph := range c.Phases {
		rb.mon.opIndex = i
		for _, op := range ph {
			if debug {
				b, _ := json.Marshal(op)
				fmt.Printf("B phase %d OP %s (clock %s)\n", i, b, rb.w.Clock.Now().UTC().Format("15:04:05.000"))
			}
			rb.apply(op)
		}
		if debug {
			fmt.Printf("B phase %d SETTLE under faults\n", i)
		}
		for j := range c.Faults[i] {
			f := c.Faults[i][j]
			if f.Name == "excluded" {
				f.Name = ""
				res.Excluded++
			}
			rb.w.API.Faults = append(rb.w.API.Faults, &f)
			labels["fault:"+string(f.Kind)] = true
		}
		ok := rb.settle()
		for _, f := range rb.w.API.Faults {
			hit += f.Hits
		}
		rb.w.API.Faults = nil
		if debug {
			fmt.Printf("B phase %d SETTLE fault-free\n", i)
		}
		ok = ok && rb.settle()
		if debug {
			rb.dump()
		}
		if !ok {
			res.Labels = []string{"inconclusive-livelock"}
			return res
		}
		rb.mon.afterStep()
		if v := rb.mon.first(); v != nil {
			vv := *v
			vv.Signature = "safety/" + vv.Property + "/" + vv.Signature
			vv.Property = "C20"
			vv.Message = fmt.Sprintf("phase %d, during the faulty run: %s", i, vv.Message)
			res.Violation = &vv
			break
		}
		if d := diffAbs(absA[i], abstractWorld(rb.w)); d != "" {
			res.Violation = pbt.V("C20", "diverged", "after phase %d (faults %+v) the faulty run did not converge to the fault-free outcome: %s", i, c.Faults[i], d)
			break
		}
	}
	res.Extra["faults-hit"] = hit
	res.NonTrivial = hit > 0
	if hit > 0 {
		labels["fault-hit-a-call"] = true
	}
	for l := range rb.labels {
		labels[l] = true
	}
	res.Labels = sortedLabels(labels)
	return res
}

// ---- C20 sweep: one transient fault at every controller call position ----

// C20SweepCase: a small confluent workload; Phase/K/Kind select the single
// fault (K == 0: every call position of every phase x every kind).
type C20SweepCase struct {
	Base  C20Case `json:"base"`
	Phase int     `json:"phase"`
	K     int     `json:"k"`
	Kind  string  `json:"kind"`
}

var c20SweepKinds = []sim.FaultKind{sim.FaultReject, sim.FaultTimeout, sim.FaultConflict, sim.FaultCommitTimeout}

func isControllerActor(a string) bool {
	return a == "job" || a == "jobqueue" || a == "jobconfig" || a == "cron"
}

// c20Calls runs the workload fault-free and returns, per phase, the write calls
// the controllers issued while that phase was settled.
func c20Calls(c C20Case) [][]*sim.Entry {
	base := E2Trace{Start: c.Start, Cfg: c.Cfg, JCs: c.JCs, Profile: "c20", ListSalt: c.ListSalt}
	r := newE2Run(&base, false)
	var out [][]*sim.Entry
	for _, ph := range c.Phases {
		for _, op := range ph {
			r.apply(op)
		}
		from := len(r.w.API.Ledger)
		r.settle()
		var calls []*sim.Entry
		for _, e := range r.w.API.Ledger[from:] {
			if isControllerActor(e.Actor) {
				calls = append(calls, e)
			}
		}
		out = append(out, calls)
	}
	return out
}

func genC20Sweep(t *rapid.T) C20SweepCase {
	tr := genE2Setup(t, c20Profile)
	for i := range tr.JCs { // small workloads: the thorough tier multiplies them by every call position
		if tr.JCs[i].ParN > 2 {
			tr.JCs[i].ParN = 2
		}
	}
	c := C20Case{Start: tr.Start, Cfg: tr.Cfg, JCs: tr.JCs, ListSalt: tr.ListSalt}
	nph := rapid.IntRange(2, 4).Draw(t, "nphases")
	r := newE2Run(tr, false)
	for ph := 0; ph < nph; ph++ {
		sub := &E2Trace{Start: tr.Start, Cfg: tr.Cfg, JCs: tr.JCs, ListSalt: tr.ListSalt}
		pp := c20Profile
		pp.maxJobs = 3
		pp.steps = rapid.IntRange(1, 5).Draw(t, "phaseops")
		genOpsOn(t, r, sub, pp, ph*10)
		c.Phases = append(c.Phases, sub.Ops)
		r.settle()
		c.Faults = append(c.Faults, nil)
	}
	sc := C20SweepCase{Base: c}
	if !pbt.Thorough() {
		calls := c20Calls(c)
		var nonEmpty []int
		for i, l := range calls {
			if len(l) > 0 {
				nonEmpty = append(nonEmpty, i)
			}
		}
		if len(nonEmpty) > 0 {
			sc.Phase = rapid.SampledFrom(nonEmpty).Draw(t, "phase")
			sc.K = rapid.IntRange(1, len(calls[sc.Phase])).Draw(t, "k")
		} else {
			sc.K = 1
		}
		sc.Kind = string(rapid.SampledFrom(c20SweepKinds).Draw(t, "kind"))
	}
	return sc
}

func runC20Sweep(sc C20SweepCase) pbt.Result {
	calls := c20Calls(sc.Base)
	res := pbt.Result{Extra: map[string]int{}}
	labels := map[string]bool{}
	type pos struct{ ph, k int }
	var positions []pos
	kinds := []sim.FaultKind{sim.FaultKind(sc.Kind)}
	if sc.K == 0 {
		for i, l := range calls {
			for k := 1; k <= len(l); k++ {
				positions = append(positions, pos{i, k})
			}
		}
		kinds = c20SweepKinds
		labels["exhaustive-single-fault-sweep"] = true
	} else {
		positions = []pos{{sc.Phase, sc.K}}
	}
	for _, l := range calls {
		res.Extra["controller-calls"] += len(l)
	}
	for _, p := range positions {
		if p.ph >= len(calls) || p.k < 1 || p.k > len(calls[p.ph]) {
			continue
		}
		e := calls[p.ph][p.k-1]
		for _, kind := range kinds {
			if kind == sim.FaultCommitTimeout && e.Actor == "jobqueue" && e.Verb == "updateStatus" {
				res.Excluded++ // open finding E2-start-commit-timeout
				continue
			}
			c := sc.Base
			c.Faults = make([][]sim.Fault, len(c.Phases))
			// Nth counts the calls of all controllers during the phase's settle: exactly the k-th one fails
			c.Faults[p.ph] = []sim.Fault{{Nth: p.k, Count: 1, Kind: kind, Actor: "controllers"}}
			one := runC20(c)
			res.Extra["fault-runs"]++
			labels["kind:"+string(kind)] = true
			labels["call:"+e.Actor+"/"+e.Verb+"/"+string(e.Res)] = true
			if one.Extra["faults-hit"] > 0 {
				res.NonTrivial = true
			}
			for _, l := range one.Labels {
				if l == "inconclusive-livelock" {
					labels[l] = true
				}
			}
			if one.Violation != nil {
				v := *one.Violation
				v.Signature = "sweep/" + v.Signature
				v.Message = fmt.Sprintf("single %s at controller call %d of phase %d (%s %s %s %s): %s", kind, p.k, p.ph, e.Actor, e.Verb, e.Res, e.Key, v.Message)
				res.Violation = &v
				res.Labels = sortedLabels(labels)
				return res
			}
		}
	}
	res.Labels = sortedLabels(labels)
	return res
}

func TestC20_sweep(t *testing.T) {
	pbt.Check(t, pbt.Opts{ID: "C20", Name: "sweep", Checks: 400, ThoroughMul: 1,
		Rule: "small confluent workload of 2-4 phases run fault-free to list, per phase, every write call the four controllers issue while the phase settles; then exactly one call (phase p, position k) fails with one kind of {rejected, timeout, conflict, applied-but-reported-failed} and the differential of the first sub-check decides (quick: one sampled (p, k, kind) per workload; thorough: every position of every phase x every kind, except applied-but-reported-failed on the start write, the open finding); non-trivial = the fault hit its call; distinct = distinct (workload, p, k, kind)"},
		genC20Sweep, runC20Sweep)
}

func TestC20_differential(t *testing.T) {
	pbt.Check(t, pbt.Opts{ID: "C20", Name: "differential", Checks: 1200, ThoroughMul: 12,
		Rule: "workload of 2-7 phases (user / kubelet / cron-tick / clock ops generated against the live fault-free world) run twice: A settles every phase without faults; B settles it under 1-3 generated transient fault patterns (rejected, timeout, conflict, applied-but-reported-failed; by actor/verb signature, bursts up to 4) and then fault-free; after every phase the abstractions (Jobs: phase/result/tasks, Pods, JobConfig status, active counters) must agree and all C02/C05-C13/C15 monitors run on B; non-trivial = at least one injected fault hit a call; distinct = distinct case"},
		genC20, runC20)
}

// ================= C02 / C04 end to end =================

func TestC02_history(t *testing.T) {
	p := profileWith(baseProfile, func(p *e2Profile) {
		p.cron, p.crashes, p.faults = true, true, true
		p.weights["tick"] = 14
		p.weights["advance"] = 10
		p.weights["createJob"] = 1
		p.weights["requeueCron"] = 5
	})
	e2Check(t, "C02", "history", 1500, e2RuleCommon+"with cron ticks, duplicate / out-of-order re-delivery of old (JobConfig, schedule time) keys, Job-cache lag, faults on create (rejected, applied-but-reported-failed), crashes and restarts; oracle after every step: no two Jobs share (owner JobConfig UID, schedule-time annotation); name = <jobconfig>-<unix>, one controller reference, UID label; non-trivial = a key was re-delivered or the controller restarted; distinct = distinct trace",
		p, []string{"C02"}, func(l []string) bool { return hasAny(l, "cron-key-redelivered", "restart", "crashed") })
}

// TestC02_newJob: the object the cron controller submits for (JobConfig, schedule
// time), before any webhook sees it (the validating webhook would mask some of
// these defects by refusing the Job, which only turns them into "the JobConfig
// never runs"): name, recorded schedule time, owner and UID label are functions
// of the JobConfig and the schedule time alone, whatever the job template carries.
type NewJobCase struct {
	JC   *execution.JobConfig `json:"jc"`
	Unix int64                `json:"unix"`
}

func TestC02_newJob(t *testing.T) {
	pbt.Check(t, pbt.Opts{ID: "C02", Name: "newjob", Checks: 4000, ThoroughMul: 10,
		Rule: "random JobConfig (names with dots/digits, options, template labels/annotations that may contain furiko's reserved keys: schedule-time annotation, JobConfig UID label) x schedule time; NewJobFromJobConfig(Scheduled) is called twice; oracle: name == <jobconfig>-<unix>, schedule-time annotation == unix, exactly one controller owner reference (that JobConfig, its UID), UID label == JobConfig UID, other template metadata copied, both calls equal; non-trivial = the template carries a reserved key; distinct = distinct case"},
		func(t *rapid.T) NewJobCase {
			name := rapid.OneOf(rapid.StringMatching(`[a-z]([a-z0-9.-]{0,20}[a-z0-9])?`), rapid.SampledFrom([]string{"a.1646370000", "x.0", "job.config.1650000000", "a-1"})).Draw(t, "name")
			jc := genJobConfig(t, jcGenOpts{Name: name, ValidOpts: true, WithCron: 1})
			switch rapid.IntRange(0, 4).Draw(t, "reserved") {
			case 0:
				jc.Spec.Template.Annotations = map[string]string{"note": "b", annScheduleTime: "1600000000"}
			case 1:
				jc.Spec.Template.Labels = map[string]string{"team": "a", labelJobConfigUID: "stale-uid"}
			case 2:
				jc.Spec.Template.Labels = map[string]string{labelJobConfigUID: "stale-uid"}
				jc.Spec.Template.Annotations = map[string]string{annScheduleTime: "1600000000"}
			}
			return NewJobCase{JC: jc, Unix: rapid.OneOf(rapid.Int64Range(0, 4102444800), rapid.Int64Range(1640000000, 1700000000)).Draw(t, "unix")}
		}, runNewJobCase)
}

func runNewJobCase(c NewJobCase) pbt.Result {
	res := pbt.Result{}
	_, ra := c.JC.Spec.Template.Annotations[annScheduleTime]
	_, rl := c.JC.Spec.Template.Labels[labelJobConfigUID]
	res.NonTrivial = ra || rl
	if ra {
		res.Labels = append(res.Labels, "template-has-schedule-time-annotation")
	}
	if rl {
		res.Labels = append(res.Labels, "template-has-uid-label")
	}
	ts := time.Unix(c.Unix, 0)
	j1, err := jobconfig.NewJobFromJobConfig(c.JC.DeepCopy(), execution.JobTypeScheduled, ts)
	if err != nil {
		res.Labels = append(res.Labels, "not-instantiable")
		return res
	}
	j2, err := jobconfig.NewJobFromJobConfig(c.JC.DeepCopy(), execution.JobTypeScheduled, ts)
	if err != nil {
		res.Violation = pbt.V("C02", "newjob/nondeterministic", "second instantiation failed: %v", err)
		return res
	}
	want := fmt.Sprintf("%s-%d", c.JC.Name, c.Unix)
	switch {
	case j1.Name != want:
		res.Violation = pbt.V("C02", "newjob/name", "Job for %s at %d is named %q, want %q", c.JC.Name, c.Unix, j1.Name, want)
	case j1.Namespace != c.JC.Namespace:
		res.Violation = pbt.V("C02", "newjob/namespace", "Job namespace %q, JobConfig namespace %q", j1.Namespace, c.JC.Namespace)
	case j1.Annotations[annScheduleTime] != strconv.FormatInt(c.Unix, 10):
		res.Violation = pbt.V("C02", "newjob/schedule-time", "Job %s records schedule time %q, want %d (template annotations %v)", j1.Name, j1.Annotations[annScheduleTime], c.Unix, c.JC.Spec.Template.Annotations)
	case j1.Labels[labelJobConfigUID] != string(c.JC.UID):
		res.Violation = pbt.V("C02", "newjob/uid-label", "Job %s is labelled with JobConfig UID %q, want %q (template labels %v)", j1.Name, j1.Labels[labelJobConfigUID], c.JC.UID, c.JC.Spec.Template.Labels)
	case j1.Spec.Type != execution.JobTypeScheduled:
		res.Violation = pbt.V("C02", "newjob/type", "Job type %q", j1.Spec.Type)
	}
	if res.Violation != nil {
		return res
	}
	nctl := 0
	for _, o := range j1.OwnerReferences {
		if o.Controller != nil && *o.Controller {
			nctl++
			if o.Kind != "JobConfig" || o.Name != c.JC.Name || o.UID != c.JC.UID {
				res.Violation = pbt.V("C02", "newjob/owner", "Job %s is controlled by %s %s (%s), want JobConfig %s (%s)", j1.Name, o.Kind, o.Name, o.UID, c.JC.Name, c.JC.UID)
				return res
			}
		}
	}
	if nctl != 1 {
		res.Violation = pbt.V("C02", "newjob/owner", "Job %s has %d controller references", j1.Name, nctl)
		return res
	}
	for k, v := range c.JC.Spec.Template.Labels {
		if k != labelJobConfigUID && j1.Labels[k] != v {
			res.Violation = pbt.V("C02", "newjob/template-label-lost", "template label %s=%s became %q", k, v, j1.Labels[k])
			return res
		}
	}
	for k, v := range c.JC.Spec.Template.Annotations {
		if k != annScheduleTime && j1.Annotations[k] != v {
			res.Violation = pbt.V("C02", "newjob/template-annotation-lost", "template annotation %s=%s became %q", k, v, j1.Annotations[k])
			return res
		}
	}
	b1, _ := json.Marshal(j1)
	b2, _ := json.Marshal(j2)
	if string(b1) != string(b2) {
		res.Violation = pbt.V("C02", "newjob/nondeterministic", "two instantiations for the same JobConfig and schedule time differ:\n %s\n %s", b1, b2)
	}
	return res
}

// keyRoundTrip: C02 pure part.
func TestC02_keyRoundTrip(t *testing.T) {
	type kc struct {
		NS   string `json:"ns"`
		Name string `json:"name"`
		Unix int64  `json:"unix"`
	}
	pbt.Check(t, pbt.Opts{ID: "C02", Name: "key-roundtrip", Checks: 20000, ThoroughMul: 10,
		Rule: "random namespace/name (dots, digits, dashes, numeric-looking suffixes) and schedule time; Split(Join(k, t)) == (k, t); non-trivial = the name contains a dot or a digit; distinct = distinct input"},
		func(t *rapid.T) kc {
			return kc{NS: rapid.StringMatching(`[a-z][a-z0-9-]{0,8}`).Draw(t, "ns"),
				Name: rapid.OneOf(rapid.StringMatching(`[a-z0-9]([a-z0-9.-]{0,20}[a-z0-9])?`), rapid.SampledFrom([]string{"a.1646370000", "1.2.3", "x.0", "0", "a..b", "job.config.1650000000"})).Draw(t, "name"),
				Unix: rapid.OneOf(rapid.Int64Range(0, 4102444800), rapid.Int64Range(1640000000, 1700000000)).Draw(t, "unix")}
		}, func(c kc) pbt.Result {
			return keyRoundTrip(c.NS, c.Name, c.Unix)
		})
}

var _ = corev1.PodPending
var _ = execution.JobQueued

func keyRoundTrip(ns, name string, unix int64) pbt.Result {
	res := pbt.Result{NonTrivial: strings.ContainsAny(name, ".0123456789")}
	key := ns + "/" + name
	ts := time.Unix(unix, 0)
	joined := croncontroller.JoinJobConfigKeyName(key, ts)
	gotKey, gotTS, err := croncontroller.SplitJobConfigKeyName(joined)
	if err != nil {
		res.Violation = pbt.V("C02", "key/split-error", "Split(Join(%q, %d)) = error %v", key, unix, err)
		return res
	}
	if gotKey != key || !gotTS.Equal(ts) {
		res.Violation = pbt.V("C02", "key/roundtrip", "Split(Join(%q, %d)) = (%q, %d)", key, unix, gotKey, gotTS.Unix())
	}
	if strings.Contains(name, ".") {
		res.Labels = append(res.Labels, "dotted-name")
	}
	return res
}

// ---------- recorded finding: a start write that commits but is reported as failed ----------

func startCommitTimeoutTrace() E2Trace {
	return E2Trace{Start: 1646370367000, Profile: "known",
		JCs: []E2JC{{Name: "jc0", Policy: "Enqueue"}},
		Ops: []E2Op{
			{K: "fault", F: &sim.Fault{Actor: "jobqueue", Verb: "updateStatus", Nth: 1, Count: 1, Kind: sim.FaultCommitTimeout}},
			{K: "createJob", A: "jc0", N: 0},
			{K: "createJob", A: "jc0", N: 1},
			{K: "settle"},
		}}
}

// TestKnownC05_startCommitTimeout: with maxConcurrency 1, the first start write
// commits but the client sees a timeout; the counter is rolled back, the later
// update event is deliberately not counted, and the second Enqueue Job starts
// next to the first.
func TestKnownC05_startCommitTimeout(t *testing.T) {
	pbt.Known(t, "C05", "E2-start-commit-timeout", func() *pbt.Violation {
		return runE2(startCommitTimeoutTrace(), map[string]bool{"C05": true}).Violation
	})
}

func TestKnownC20_startCommitTimeout(t *testing.T) {
	pbt.Known(t, "C20", "E2-start-commit-timeout", func() *pbt.Violation {
		tr := startCommitTimeoutTrace()
		c := C20Case{Start: tr.Start, JCs: tr.JCs, Phases: [][]E2Op{tr.Ops[1:3]}, Faults: [][]sim.Fault{{*tr.Ops[0].F}}}
		return runC20(c).Violation
	})
}
