#!/bin/bash
# confirm_seed.sh <ID> <package dir relative to repo> <-run pattern>
# Confirms an independently written breaking change in its scratch worktree /tmp/seed-<ID>:
# it compiles, the project's tests still pass, the demonstration fails with it and passes without it.
set -u
PFX=${SEEDPFX:-seed}; ID=$1; PKG=$2; PAT=$3; WT=/tmp/$PFX-$ID; OUT=/tmp/$PFX-out/$ID
export GOFLAGS=-mod=mod GOPROXY=off GOSUMDB=off GOTOOLCHAIN=local
cd $WT || exit 2
git diff > $OUT/patch.confirmed.diff
echo "files changed: $(git diff --stat | tail -1)"
go build ./pkg/... ./cmd/... && echo "BUILD ok" || { echo "BUILD FAILED"; exit 1; }
go test -vet=off -count=1 ./pkg/... ./apis/... 2>&1 | grep -v "no test files" | grep -v "^ok" | grep -v "^[IEW][0-9]" | head -8
echo "SUITE done (lines above, if any, are failures)"
cp $OUT/demo_test.go $WT/$PKG/zz_seed_demo_test.go
go test -count=1 -run "$PAT" ./$PKG/ > /tmp/$PFX-demo-$ID-with.log 2>&1; echo "demo WITH change: exit $? ($(grep -c '^--- FAIL\|^    --- FAIL' /tmp/$PFX-demo-$ID-with.log) failing tests)"
git stash -q -- $(git diff --name-only)
go test -count=1 -run "$PAT" ./$PKG/ > /tmp/$PFX-demo-$ID-without.log 2>&1; echo "demo WITHOUT change: exit $?"
git stash pop -q
rm -f $WT/$PKG/zz_seed_demo_test.go
git status --short
