// Package pbt is the glue between rapid-driven properties, the ./check driver
// and the evidence files: it owns case counting, non-trivial classification,
// label histograms, samples, failure files and replay.
//
// Every property is split into a generator (draws a JSON-serialisable case
// from rapid) and a runner (a pure function of the case and of the furiko code
// under test). Replay calls the runner on a saved case with no library
// involved.
package pbt

import (
	"encoding/json"
	"flag"
	"fmt"
	"hash/fnv"
	"os"
	"path/filepath"
	"runtime"
	"sort"
	"strconv"
	"strings"
	"sync"
	"testing"
	"time"

	"pgregory.net/rapid"
)

// Violation describes one failed oracle.
type Violation struct {
	Property  string `json:"property"`
	Signature string `json:"signature"` // stable id of the oracle + causal feature; matched against known-findings.json
	Message   string `json:"message"`
}

func (v *Violation) Error() string { return v.Property + "/" + v.Signature + ": " + v.Message }

// V builds a violation.
func V(prop, sig, format string, args ...interface{}) *Violation {
	return &Violation{Property: prop, Signature: sig, Message: fmt.Sprintf(format, args...)}
}

// Result is what a runner reports for one case.
type Result struct {
	Labels     []string    // classification labels (histogram in evidence)
	NonTrivial bool        // non-trivial by the property's stated rule
	Violation  *Violation  // nil if the oracle held
	Excluded   int         // draws / steps excluded by construction because of a known finding
	Sample     interface{} // optional compact rendering for evidence; default: the case itself
	Extra      map[string]int
}

// Opts configures one sub-check.
type Opts struct {
	ID     string // property id, e.g. C14
	Name   string // sub-check name, e.g. "hash-distinct"
	Checks int    // base number of cases in the quick tier (whole run, all shards)
	// ThoroughMul multiplies Checks in the thorough tier (default 20).
	ThoroughMul int
	Rule        string // non-trivial rule, prose
}

type sampleRec struct {
	Labels []string    `json:"labels"`
	Case   interface{} `json:"case"`
}

type fileStats struct {
	ID          string            `json:"id"`
	Name        string            `json:"name"`
	Rule        string            `json:"rule"`
	Seed        uint64            `json:"seed"`
	Shard       int               `json:"shard"`
	Requested   int               `json:"requested"`
	Evaluations int               `json:"evaluations"`
	NonTrivial  int               `json:"nontrivial"`
	Hashes      []string          `json:"hashes"` // distinct non-trivial case hashes
	Labels      map[string]int    `json:"labels"`
	Samples     []sampleRec       `json:"samples"`
	Excluded    int               `json:"excluded"`
	Extra       map[string]int    `json:"extra"`
	Violations  []json.RawMessage `json:"violations"`
	WallS       float64           `json:"wall_s"`
	Completed   bool              `json:"completed"`
}

type failFile struct {
	Property  string          `json:"property"`
	Name      string          `json:"name"`
	Signature string          `json:"signature"`
	Message   string          `json:"message"`
	Seed      uint64          `json:"seed"`
	Case      json.RawMessage `json:"case"`
}

func envInt(k string, def int) int {
	if s := os.Getenv(k); s != "" {
		if n, err := strconv.Atoi(s); err == nil {
			return n
		}
	}
	return def
}

// Tier returns "quick" or "thorough".
func Tier() string {
	if os.Getenv("VERIF_TIER") == "thorough" {
		return "thorough"
	}
	return "quick"
}

// Thorough reports whether the thorough tier is running.
func Thorough() bool { return Tier() == "thorough" }

func outDir() string {
	d := os.Getenv("VERIF_OUT")
	if d == "" {
		d = os.TempDir()
	}
	return d
}

// Seed returns the rapid seed of this shard (never 0).
func Seed() uint64 {
	s := envInt("VERIF_SEED", 1)
	if s < 0 {
		s = -s
	}
	shards := envInt("VERIF_SHARDS", 1)
	shard := envInt("VERIF_SHARD", 0)
	return uint64(s)*uint64(shards)*7919 + uint64(shard) + 1
}

var flagMu sync.Mutex

// Check runs one sub-check: replay mode if VERIF_REPLAY is set, otherwise a
// rapid campaign of Opts.Checks cases (scaled by tier, divided over shards).
func Check[C any](t *testing.T, o Opts, gen func(*rapid.T) C, run func(C) Result) {
	if FuzzF != nil {
		fuzz(o, gen, run)
		return
	}
	t.Helper()
	if rp := os.Getenv("VERIF_REPLAY"); rp != "" {
		replay(t, o, rp, run)
		return
	}
	if only := os.Getenv("VERIF_ONLY"); only != "" && !strings.Contains(o.Name, only) {
		t.Skip("filtered")
	}
	n := o.Checks
	if Thorough() {
		m := o.ThoroughMul
		if m == 0 {
			m = 20
		}
		n *= m
	}
	if m := envInt("VERIF_SCALE_PCT", 100); m != 100 {
		n = n * m / 100
	}
	shards := envInt("VERIF_SHARDS", 1)
	n = (n + shards - 1) / shards
	if n < 1 {
		n = 1
	}
	seed := Seed()
	flagMu.Lock()
	_ = flag.Set("rapid.checks", strconv.Itoa(n))
	_ = flag.Set("rapid.seed", strconv.FormatUint(seed, 10))
	_ = flag.Set("rapid.nofailfile", "true")
	if flag.Lookup("rapid.shrinktime").Value.String() == "30s" {
		_ = flag.Set("rapid.shrinktime", "20s")
	}
	flagMu.Unlock()

	st := &fileStats{ID: o.ID, Name: o.Name, Rule: o.Rule, Seed: seed, Shard: envInt("VERIF_SHARD", 0),
		Requested: n, Labels: map[string]int{}, Extra: map[string]int{}}
	hashes := map[uint64]struct{}{}
	perLabelSamples := map[string]int{}
	start := time.Now()
	failed := false
	var lastFail *failFile

	flush := func(completed bool) {
		st.Completed = completed
		st.WallS = time.Since(start).Seconds()
		st.Hashes = st.Hashes[:0]
		for h := range hashes {
			st.Hashes = append(st.Hashes, strconv.FormatUint(h, 36))
		}
		sort.Strings(st.Hashes)
		if lastFail != nil {
			b, _ := json.Marshal(lastFail)
			st.Violations = []json.RawMessage{b}
			fp := filepath.Join(outDir(), fmt.Sprintf("fail-%s-%s-%d.json", o.ID, o.Name, st.Shard))
			_ = os.WriteFile(fp, b, 0o644)
		}
		b, _ := json.MarshalIndent(st, "", " ")
		fp := filepath.Join(outDir(), fmt.Sprintf("stats-%s-%s-%d.json", o.ID, o.Name, st.Shard))
		_ = os.WriteFile(fp, b, 0o644)
	}
	defer func() { flush(!failed) }()

	prop := func(rt *rapid.T) {
		c := gen(rt)
		res := safeRun(o, run, c)
		cj, err := json.Marshal(c)
		if err != nil {
			rt.Fatalf("case not serialisable: %v", err)
		}
		if !failed {
			st.Evaluations++
			st.Excluded += res.Excluded
			for k, v := range res.Extra {
				st.Extra[k] += v
			}
			for _, l := range res.Labels {
				st.Labels[l]++
			}
			if res.NonTrivial {
				st.NonTrivial++
				h := fnv.New64a()
				_, _ = h.Write(cj)
				hashes[h.Sum64()] = struct{}{}
			}
			// keep up to 2 samples per label, 12 overall, preferring non-trivial cases
			if res.NonTrivial && len(st.Samples) < 12 {
				keep := len(st.Samples) < 2
				for _, l := range res.Labels {
					if perLabelSamples[l] < 1 {
						keep = true
					}
				}
				if keep && len(cj) < 6000 {
					for _, l := range res.Labels {
						perLabelSamples[l]++
					}
					var sc interface{} = json.RawMessage(cj)
					if res.Sample != nil {
						sc = res.Sample
					}
					st.Samples = append(st.Samples, sampleRec{Labels: res.Labels, Case: sc})
				}
			}
		}
		if res.Violation != nil {
			failed = true
			lastFail = &failFile{Property: o.ID, Name: o.Name, Signature: res.Violation.Signature,
				Message: res.Violation.Message, Seed: seed, Case: cj}
			rt.Fatalf("VIOLATION %s", res.Violation.Error())
		}
	}
	rapid.Check(t, prop)
}

// FuzzF / FuzzName switch Check into coverage-guided mode: the sub-check named
// FuzzName ("<ID>/<name>") hands its property to Go's native fuzzer through
// rapid.MakeFuzz (the fuzzer mutates the byte stream rapid draws from), every
// other sub-check is a no-op. A failing case is written as an ordinary fail
// file, so it replays through the normal --replay path without the fuzzer.
var (
	FuzzF    *testing.F
	FuzzName string
)

func fuzz[C any](o Opts, gen func(*rapid.T) C, run func(C) Result) {
	if o.ID+"/"+o.Name != FuzzName {
		return
	}
	FuzzF.Fuzz(rapid.MakeFuzz(func(rt *rapid.T) {
		c := gen(rt)
		res := safeRun(o, run, c)
		if res.Violation != nil {
			cj, _ := json.Marshal(c)
			b, _ := json.Marshal(&failFile{Property: o.ID, Name: o.Name, Signature: res.Violation.Signature, Message: res.Violation.Message, Case: cj})
			_ = os.WriteFile(filepath.Join(outDir(), fmt.Sprintf("fail-%s-%s-fuzz%d.json", o.ID, o.Name, os.Getpid())), b, 0o644)
			rt.Fatalf("VIOLATION %s", res.Violation.Error())
		}
	}))
}

func replay[C any](t *testing.T, o Opts, path string, run func(C) Result) {
	b, err := os.ReadFile(path)
	if err != nil {
		t.Skipf("replay file unreadable: %v", err)
	}
	var ff failFile
	if err := json.Unmarshal(b, &ff); err != nil {
		t.Fatalf("bad replay file: %v", err)
	}
	if ff.Property != o.ID || ff.Name != o.Name {
		t.Skip("replay file is for another sub-check")
	}
	var c C
	if err := json.Unmarshal(ff.Case, &c); err != nil {
		t.Fatalf("bad replay case: %v", err)
	}
	res := safeRun(o, run, c)
	out := map[string]interface{}{"property": o.ID, "name": o.Name, "labels": res.Labels, "nontrivial": res.NonTrivial}
	if res.Violation != nil {
		out["violation"] = res.Violation
	}
	ob, _ := json.Marshal(out)
	_ = os.WriteFile(filepath.Join(outDir(), fmt.Sprintf("replay-%s-%s-%s.json", o.ID, o.Name, filepath.Base(path))), ob, 0o644)
	if res.Violation != nil {
		t.Fatalf("VIOLATION %s", res.Violation.Error())
	}
}

// safeRun turns a panic in the code under test (or in the oracle) into a
// violation so that it is shrunk and saved like any other failure.
func safeRun[C any](o Opts, run func(C) Result, c C) (res Result) {
	defer func() {
		if r := recover(); r != nil {
			buf := make([]byte, 4096)
			buf = buf[:runtime.Stack(buf, false)]
			res.Violation = V(o.ID, o.Name+"/panic", "panic: %v\n%s", r, buf)
		}
	}()
	return run(c)
}

// Known runs the fixed reproducer of a recorded finding and reports whether it
// still reproduces. The driver prints KNOWN-FINDING for reproducing findings
// that known-findings.json lists as open, and VIOLATION for reproducing ones it
// does not (e.g. recorded as fixed).
func Known(t *testing.T, id, finding string, repro func() *Violation) {
	var v *Violation
	func() {
		defer func() {
			if r := recover(); r != nil {
				v = V(id, finding+"/panic", "panic: %v", r)
			}
		}()
		v = repro()
	}()
	out := map[string]interface{}{"property": id, "finding": finding, "reproduced": v != nil}
	if v != nil {
		out["signature"] = v.Signature
		out["message"] = v.Message
	}
	b, _ := json.Marshal(out)
	_ = os.WriteFile(filepath.Join(outDir(), fmt.Sprintf("known-%s-%s.json", id, finding)), b, 0o644)
	if v != nil {
		t.Logf("finding %s still reproduces: %s", finding, v.Message)
	} else {
		t.Logf("finding %s no longer reproduces", finding)
	}
}
