package props

import (
	"fmt"
	"sort"
	"strconv"
	"strings"
	"time"

	corev1 "k8s.io/api/core/v1"
	metav1 "k8s.io/apimachinery/pkg/apis/meta/v1"
	"k8s.io/apimachinery/pkg/runtime"
	"k8s.io/client-go/tools/cache"

	execution "github.com/furiko-io/furiko/apis/execution/v1alpha1"
	"github.com/furiko-io/furiko/pkg/execution/taskexecutor/podtaskexecutor"
	jobtasks "github.com/furiko-io/furiko/pkg/execution/tasks"
	jobutil "github.com/furiko-io/furiko/pkg/execution/util/job"
	"github.com/furiko-io/furiko/pkg/execution/util/jobconfig"
	"github.com/furiko-io/furiko/pkg/execution/util/parallel"

	"verif/harness/pbt"
	"verif/harness/sim"
)

var (
	annAdmissionError = jobutil.LabelKeyAdmissionErrorMessage
	annScheduleTime   = jobconfig.AnnotationKeyScheduleTime
	lblJobUID         = podtaskexecutor.LabelKeyJobUID
	lblRetryIndex     = podtaskexecutor.LabelKeyTaskRetryIndex
	lblIndexHash      = podtaskexecutor.LabelKeyTaskParallelIndexHash
)

// monitor holds the safety monitors (run on every ledger entry / after every
// step) and the quiescent checks of the E2 properties. All of them read the
// API server's ledger and authoritative store; "knowable" oracles additionally
// read the controller's caches.
type monitor struct {
	r       *e2run
	props   map[string]bool
	viol    []*pbt.Violation
	labels  map[string]bool
	opIndex int

	userEdited      map[string]bool            // Job UID -> spec/metadata edited or deletion requested by a user
	userEditSeq     map[string]int             // Job UID -> ledger sequence of the latest user edit
	finishedSeq     map[string]int             // Job UID -> ledger sequence at which the current finished result was recorded
	podCreates      map[string][]podCreate     // jobUID|hash -> creations in order
	everTasks       map[string]map[string]bool // Job UID -> task names ever listed in status
	rejectedJobs    map[string]bool            // Job UID -> carries the admission-error annotation
	jobCtlWrote     map[string]bool            // Job UID -> the job controller has written its status at least once
	startedAt       map[string]time.Time
	deadlineCrossed bool
	// observed[podKey#uid]: the Pod was Succeeded in the controller's Pod cache at
	// the start of a job-controller sync of its own Job, i.e. the controller
	// could know about the success. A success that vanished unobserved is a lost
	// (unsuccessful) attempt, as the API documents.
	observed map[string]int    // Pod key#uid -> process incarnation that saw it Succeeded
	// persistedSuccess[pod key]: some applied Job write recorded this task as Succeeded
	persistedSuccess map[string]bool
	createdFor       map[string]string // Pod UID -> UID of the Job the job controller created it for
	foreign  map[string]string // planted Pod key -> name of the Job whose task name it occupies

	// midBefore: what the controller's caches held, when the reconcile that is running
	// began, for every key that a mid-reconcile delivery has changed since
	// ("resource|key" -> object, nil = absent). Emptied when a reconcile begins or ends.
	midBefore map[string]runtime.Object
	viewStep  bool // the cache accessors answer as of the beginning of the running reconcile

	seenRestarts int
	bound        *restartBound
	reqChecked   int
}

// beforeJobSync is called before every job-controller step with the key that
// is about to be processed.
func (m *monitor) beforeJobSync(key string) {
	if m.r.w.Ctrl == nil {
		return
	}
	cj := m.ctrlCachedJob(key)
	if cj == nil {
		return
	}
	for _, o := range m.r.w.Ctrl.Informer(sim.ResPods).GetIndexer().List() {
		p := o.(*corev1.Pod)
		if ref := metav1.GetControllerOf(p); ref != nil && ref.UID == cj.UID && p.Status.Phase == corev1.PodSucceeded {
			m.observed[keyOf(p)+"#"+string(p.UID)] = m.r.w.Restarts + 1
		}
	}
}

// successKnown: the success of a Pod (key "ns/name#uid") is something the
// controller can know when it decides: the result is persisted in the Job's
// status, or the Pod is Succeeded in the controller's Pod cache right now, or it
// is recorded, never seen finished, missing from the cache and Succeeded in the
// API server (getTaskForRef looks such a task up live). A success seen only in
// a sync whose status write was lost (crash, conflict), with the Pod gone
// before the next sync, is a lost attempt, as the API documents for
// DeletedFinalStateUnknown: the reconciler keeps no memory between syncs.
func (m *monitor) successKnown(k string) bool {
	i := strings.IndexByte(k, '#')
	if i < 0 {
		return false
	}
	key, uid := k[:i], k[i+1:]
	if m.persistedSuccess[key] {
		return true
	}
	ns, name := splitKey(key)
	var ref *execution.TaskRef
	for _, j := range m.r.w.API.Jobs() {
		if j.Namespace != ns {
			continue
		}
		if r := findTaskRef(j, name); r != nil {
			ref = r
			if r.Status.Result == execution.TaskSucceeded {
				return true
			}
		}
	}
	visible := func() bool {
		if cp := m.ctrlCachedPod(key); cp != nil {
			return string(cp.UID) == uid && cp.Status.Phase == corev1.PodSucceeded
		}
		if ref != nil && ref.FinishTimestamp == nil {
			if lp := m.r.w.API.Get(sim.ResPods, key); lp != nil {
				p := lp.(*corev1.Pod)
				return string(p.UID) == uid && p.Status.Phase == corev1.PodSucceeded
			}
		}
		return false
	}
	// used by oracles that forbid an action: with a watch event arriving in the middle
	// of the judged reconcile, the success must be visible in what it read before, too
	return visible() && m.atStepStart(visible)
}

type podCreate struct {
	key   string
	uid   string
	retry int
	at    time.Time
}

func newMonitor(r *e2run) *monitor {
	return &monitor{r: r, labels: map[string]bool{}, userEdited: map[string]bool{}, userEditSeq: map[string]int{}, finishedSeq: map[string]int{}, podCreates: map[string][]podCreate{},
		everTasks: map[string]map[string]bool{}, rejectedJobs: map[string]bool{}, jobCtlWrote: map[string]bool{}, startedAt: map[string]time.Time{}, observed: map[string]int{}, persistedSuccess: map[string]bool{}, createdFor: map[string]string{}, foreign: map[string]string{}, midBefore: map[string]runtime.Object{}}
}

// onMid records what a cache held for a key before a mid-reconcile delivery
// changes it (first change per reconcile only: that is the state the reconcile
// may have read).
func (m *monitor) onMid(res sim.Res, key string, old runtime.Object) {
	k := string(res) + "|" + key
	if _, ok := m.midBefore[k]; !ok {
		m.midBefore[k] = old
	}
}

// reconcileBoundary is called before and after every reconcile step.
func (m *monitor) reconcileBoundary() {
	if len(m.midBefore) > 0 {
		m.midBefore = map[string]runtime.Object{}
	}
}

// atStepStart evaluates f against the controller's caches as they were when the
// running reconcile began. A reconciler reads its caches at some point between
// the beginning of its sync and the write that is being judged; with a watch event
// arriving in between, what it "can know" is one of the two states. Oracles that
// justify an action accept either state; oracles that forbid an action demand
// that both states forbid it.
func (m *monitor) atStepStart(f func() bool) bool {
	if len(m.midBefore) == 0 {
		return f()
	}
	m.viewStep = true
	defer func() { m.viewStep = false }()
	return f()
}
func (m *monitor) midChanged() bool { return len(m.midBefore) > 0 }

func (m *monitor) on(p string) bool { return m.props == nil || m.props[p] }
func (m *monitor) label(s string)   { m.labels[s] = true }
func (m *monitor) first() *pbt.Violation {
	if len(m.viol) > 0 {
		return m.viol[0]
	}
	return nil
}
func (m *monitor) fail(prop, sig, f string, a ...interface{}) {
	if !m.on(prop) {
		return
	}
	m.viol = append(m.viol, pbt.V(prop, sig, "op %d: "+f, append([]interface{}{m.opIndex}, a...)...))
}

func hasAdmErr(j *execution.Job) bool { _, ok := j.Annotations[annAdmissionError]; return ok }
// terminalPhase is the harness's own reading of the API documentation (the
// phases "completed / did not complete / fully killed / could not start / finished
// for unknown reasons"), deliberately not furiko's JobPhase.IsTerminal: a Job that
// is Terminating (completion decided, tasks still alive) is not finished and
// still occupies its concurrency slot.
func terminalPhase(p execution.JobPhase) bool {
	switch p {
	case execution.JobSucceeded, execution.JobFailed, execution.JobKilled, execution.JobAdmissionError, execution.JobFinishedUnknown:
		return true
	}
	return false
}

func isStarted(j *execution.Job) bool { return !j.Status.StartTime.IsZero() }
func isActive(j *execution.Job) bool  { return isStarted(j) && !terminalPhase(j.Status.Phase) }
func isQueued(j *execution.Job) bool  { return !isStarted(j) && !terminalPhase(j.Status.Phase) }
func jcUIDOf(j *execution.Job) string { return j.Labels[labelJobConfigUID] }
func policyOf(j *execution.Job) execution.ConcurrencyPolicy {
	if j.Spec.StartPolicy == nil {
		return ""
	}
	return j.Spec.StartPolicy.ConcurrencyPolicy
}
func podAlive(p *corev1.Pod) bool {
	return p.Status.Phase != corev1.PodSucceeded && p.Status.Phase != corev1.PodFailed
}

func (m *monitor) jcByUID(uid string) *execution.JobConfig {
	for _, jc := range m.r.w.API.JobConfigs() {
		if string(jc.UID) == uid {
			return jc
		}
	}
	return nil
}

func (m *monitor) jobByUID(uid string) *execution.Job {
	for _, j := range m.r.w.API.Jobs() {
		if string(j.UID) == uid {
			return j
		}
	}
	return nil
}

// ctrlCachedJobs returns the Jobs in the controller process's Job cache.
func (m *monitor) ctrlCachedJobs() []*execution.Job {
	var out []*execution.Job
	for _, o := range m.ctrlCachedList(sim.ResJobs) {
		out = append(out, o.(*execution.Job))
	}
	return out
}

// ctrlCachedPods returns the Pods in the controller process's Pod cache.
func (m *monitor) ctrlCachedPods() []*corev1.Pod {
	var out []*corev1.Pod
	for _, o := range m.ctrlCachedList(sim.ResPods) {
		out = append(out, o.(*corev1.Pod))
	}
	return out
}

func (m *monitor) ctrlCachedList(res sim.Res) []runtime.Object {
	if m.r.w.Ctrl == nil {
		return nil
	}
	var out []runtime.Object
	seen := map[string]bool{}
	for _, o := range m.r.w.Ctrl.Informer(res).GetIndexer().List() {
		ro := o.(runtime.Object)
		if m.viewStep {
			key, _ := cache.MetaNamespaceKeyFunc(o)
			seen[key] = true
			if old, ok := m.midBefore[string(res)+"|"+key]; ok {
				if old != nil {
					out = append(out, old)
				}
				continue
			}
		}
		out = append(out, ro)
	}
	if m.viewStep { // removed from the cache by a mid-reconcile delivery
		var ks []string
		for k, old := range m.midBefore {
			if old != nil && strings.HasPrefix(k, string(res)+"|") && !seen[strings.TrimPrefix(k, string(res)+"|")] {
				ks = append(ks, k)
			}
		}
		sort.Strings(ks)
		for _, k := range ks {
			out = append(out, m.midBefore[k])
		}
	}
	return out
}

func (m *monitor) ctrlCached(res sim.Res, key string) runtime.Object {
	if m.r.w.Ctrl == nil {
		return nil
	}
	if m.viewStep {
		if old, ok := m.midBefore[string(res)+"|"+key]; ok {
			return old
		}
	}
	return m.r.w.Ctrl.Informer(res).Cached(key)
}

func (m *monitor) ctrlCachedPod(key string) *corev1.Pod {
	if o := m.ctrlCached(sim.ResPods, key); o != nil {
		return o.(*corev1.Pod)
	}
	return nil
}

func (m *monitor) ctrlCachedJob(key string) *execution.Job {
	if o := m.ctrlCached(sim.ResJobs, key); o != nil {
		return o.(*execution.Job)
	}
	return nil
}

// ---------- entry dispatch ----------

func (m *monitor) onEntry(e *sim.Entry) {
	if !e.Applied {
		return
	}
	switch e.Res {
	case sim.ResJobs:
		m.onJobEntry(e)
	case sim.ResPods:
		m.onPodEntry(e)
	case sim.ResJobConfigs:
		m.onJobConfigEntry(e)
	}
}

func (m *monitor) onJobEntry(e *sim.Entry) {
	now := e.Time
	var before, after *execution.Job
	if e.Before != nil {
		before = e.Before.(*execution.Job)
	}
	if e.After != nil {
		after = e.After.(*execution.Job)
	}
	if (e.Actor == "user" || e.Actor == "gc") && before != nil {
		m.userEdited[string(before.UID)] = true
		m.userEditSeq[string(before.UID)] = e.Seq
	}
	// a success that was written down once stays known, whatever later writes do to the record
	if e.Applied && after != nil {
		for _, tr := range after.Status.Tasks {
			if tr.Status.Result == execution.TaskSucceeded {
				m.persistedSuccess[after.Namespace+"/"+tr.Name] = true
			}
		}
	}

	// --- C13: a Job leaves the API only after every task listed in its status ---
	if e.Removed && before != nil {
		for _, tref := range before.Status.Tasks {
			if p := m.r.w.API.Get(sim.ResPods, before.Namespace+"/"+tref.Name); p != nil {
				// the Job's own task: controlled by it, or created by the job controller for it
				// (its owner reference may have been stripped since, as orphan propagation does)
				ref := metav1.GetControllerOf(p.(*corev1.Pod))
				if (ref != nil && ref.UID == before.UID) || m.createdFor[string(p.(*corev1.Pod).UID)] == string(before.UID) {
					m.fail("C13", "job-removed-before-tasks", "Job %s left the API (by %s) while its listed task %s still exists", e.Key, e.Actor, tref.Name)
				}
			}
		}
		m.label("job-removed")
		return
	}
	// --- C13: TTL deletion is never early ---
	if e.Verb == "delete" && e.Actor == "job" && before != nil {
		fin := before.Status.Condition.Finished
		ttl := m.r.tr.Cfg.ttlDefault()
		if before.Spec.TTLSecondsAfterFinished != nil {
			ttl = *before.Spec.TTLSecondsAfterFinished
		}
		if fin == nil {
			// The controller deletes in the same sync in which it computes the finished
			// status, before writing it: judge on what it could compute from its caches.
			fin = m.knowableFinished(before)
			if fin == nil && m.midChanged() {
				m.atStepStart(func() bool { fin = m.knowableFinished(before); return true })
			}
		}
		if fin == nil {
			// a foreign Pod on one of its task names makes the Job AdmissionError within the same sync
			for pk, jn := range m.foreign {
				if jn == before.Name && m.r.w.API.Get(sim.ResPods, pk) != nil {
					fin = &execution.JobConditionFinished{FinishTimestamp: metav1.NewTime(now)}
				}
			}
		}
		if fin == nil {
			m.fail("C13", "ttl-delete-unfinished", "controller deleted Job %s which is not finished", e.Key)
		} else if now.Before(fin.FinishTimestamp.Add(time.Duration(ttl) * time.Second)) {
			m.fail("C13", "ttl-delete-early", "controller deleted Job %s at %v, finish %v + ttl %ds not reached", e.Key, now.UTC(), fin.FinishTimestamp.UTC(), ttl)
		}
		m.label("ttl-expiry")
	}
	if before == nil || after == nil {
		return
	}
	uid := string(after.UID)

	// --- start writes: C05, C06(c), C07 ---
	if !isStarted(before) && isStarted(after) {
		m.startedAt[uid] = now
		if sa := after.Spec.StartPolicy; sa != nil && sa.StartAfter != nil {
			m.label("has-startAfter")
			if now.Before(sa.StartAfter.Time) {
				m.fail("C07", "started-before-startAfter", "Job %s started at %v, startAfter is %v", e.Key, now.UTC(), sa.StartAfter.UTC())
			}
		}
		if m.rejectedJobs[uid] || hasAdmErr(before) {
			// It gets a start time but, as checked below, never a task: "never runs" holds.
			m.label("rejected-job-got-start-time")
		}
		if jcuid := jcUIDOf(after); jcuid != "" {
			pol := policyOf(after)
			if jc := m.jcByUID(jcuid); jc != nil && (pol == execution.ConcurrencyPolicyForbid || pol == execution.ConcurrencyPolicyEnqueue) {
				max := jc.Spec.Concurrency.GetMaxConcurrency()
				var others []string
				for _, j := range m.r.w.API.Jobs() {
					if j.UID != after.UID && jcUIDOf(j) == jcuid && isActive(j) {
						others = append(others, j.Name)
					}
				}
				if int64(len(others)) >= max {
					m.fail("C05", "started-over-limit", "%s Job %s started while JobConfig %s already has %d active Job(s) %v, maxConcurrency %d", pol, e.Key, jc.Name, len(others), others, max)
				}
				if int64(len(others)) == max-1 {
					m.label("started-at-last-slot")
				}
			}
			if pol == execution.ConcurrencyPolicyEnqueue {
				// FIFO among Enqueue Jobs known to the controller
				for _, k := range m.r.w.API.Jobs() {
					if k.UID == after.UID || jcUIDOf(k) != jcuid || policyOf(k) != execution.ConcurrencyPolicyEnqueue {
						continue
					}
					if !isQueued(k) || hasAdmErr(k) || k.DeletionTimestamp != nil || !k.CreationTimestamp.Time.Before(after.CreationTimestamp.Time) {
						continue
					}
					if sa := k.Spec.StartPolicy.StartAfter; sa != nil && sa.Time.After(now) {
						continue
					}
					knownQueued := func() bool {
						ck := m.ctrlCachedJob(keyOf(k))
						return ck != nil && isQueued(ck) && !hasAdmErr(ck)
					}
					if !knownQueued() || !m.atStepStart(knownQueued) {
						continue // not (yet) knowable to the controller (now, or when this sync listed the queue)
					}
					m.fail("C06", "fifo", "Enqueue Job %s (created %v) started while earlier Job %s (created %v), already due, is still queued", e.Key, after.CreationTimestamp.UTC(), k.Name, k.CreationTimestamp.UTC())
				}
			}
		}
	}

	// --- C06: rejections ---
	if !hasAdmErr(before) && hasAdmErr(after) {
		m.rejectedJobs[uid] = true
		if e.Actor == "jobqueue" {
			m.label("rejected-by-queue")
			pol := policyOf(after)
			if pol != execution.ConcurrencyPolicyForbid {
				m.fail("C06", "non-forbid-rejected", "%s Job %s was refused by the queue controller", pol, e.Key)
			} else if jc := m.jcByUID(jcUIDOf(after)); jc != nil {
				max := jc.Spec.Concurrency.GetMaxConcurrency()
				active := map[string]bool{}
				for _, j := range m.r.w.API.Jobs() {
					if j.UID != after.UID && jcUIDOf(j) == string(jc.UID) && isActive(j) {
						active[j.Name] = true
					}
				}
				cachedActive := func() bool {
					for _, j := range m.ctrlCachedJobs() {
						if j.UID != after.UID && jcUIDOf(j) == string(jc.UID) && isActive(j) {
							active[j.Name] = true // finished in the API but not yet known to the controller
						}
					}
					return true
				}
				cachedActive()
				if m.midChanged() {
					// the sync read its counter before a watch event lowered it in mid-reconcile
					m.atStepStart(cachedActive)
					m.label("rejected-with-mid-reconcile-delivery")
				}
				if int64(len(active)) < max {
					m.fail("C06", "forbid-rejected-below-limit", "Forbid Job %s refused while only %d Job(s) of %s could be active (maxConcurrency %d)", e.Key, len(active), jc.Name, max)
				}
			}
		}
	}

	// --- C11: status moves forward ---
	m.checkForward(e, before, after)

	// --- C09: task refs never disappear ---
	names := m.everTasks[uid]
	if names == nil {
		names = map[string]bool{}
		m.everTasks[uid] = names
	}
	cur := map[string]bool{}
	for _, tr := range after.Status.Tasks {
		cur[tr.Name] = true
	}
	for n := range names {
		if !cur[n] {
			m.fail("C09", "task-ref-dropped", "task %s disappeared from the status of Job %s", n, e.Key)
		}
	}
	for n := range cur {
		names[n] = true
	}
	// --- C09: a task whose object still exists is never recorded as lost ---
	for _, tr := range after.Status.Tasks {
		var prev *execution.TaskRef
		for i := range before.Status.Tasks {
			if before.Status.Tasks[i].Name == tr.Name {
				prev = &before.Status.Tasks[i]
			}
		}
		newlyFinished := tr.FinishTimestamp != nil && (prev == nil || prev.FinishTimestamp == nil)
		if !newlyFinished {
			continue
		}
		if o := m.r.w.API.Get(sim.ResPods, after.Namespace+"/"+tr.Name); o != nil {
			p := o.(*corev1.Pod)
			if ref := metav1.GetControllerOf(p); ref != nil && ref.UID == after.UID && podAlive(p) && p.DeletionTimestamp == nil {
				m.fail("C09", "lost-while-alive", "task %s of Job %s recorded as finished (state %s) while its Pod exists, is not terminal and is not being deleted", tr.Name, e.Key, tr.Status.State)
			}
		}
	}

	// --- C10: the write that makes a Job terminal ---
	if e.Actor == "job" {
		m.jobCtlWrote[uid] = true
		if !terminalPhase(before.Status.Phase) && terminalPhase(after.Status.Phase) {
			m.checkTerminal(e, after)
		}
	}
}

func (m *monitor) checkForward(e *sim.Entry, before, after *execution.Job) {
	key := e.Key
	if isStarted(before) && (!isStarted(after) || !before.Status.StartTime.Equal(after.Status.StartTime)) {
		m.fail("C11", "startTime-changed", "Job %s start time changed from %v to %v (by %s)", key, before.Status.StartTime, after.Status.StartTime, e.Actor)
	}
	bf, af := before.Status.Condition.Finished, after.Status.Condition.Finished
	uid := string(after.UID)
	// "unless the user edits or deletes it": an edit counts only if it happened after
	// the result it is supposed to excuse was recorded.
	editedSince := m.userEditSeq[uid] > m.finishedSeq[uid] || after.DeletionTimestamp != nil
	if bf == nil && af != nil {
		m.finishedSeq[uid] = e.Seq
	}
	if bf != nil && af == nil && !editedSince {
		m.fail("C11", "unfinished", "finished Job %s became unfinished (by %s) without a user edit", key, e.Actor)
	}
	if bf != nil && af != nil {
		changed := false
		if bf.Result != af.Result {
			changed = true
			if !editedSince {
				m.fail("C11", "result-changed", "Job %s result changed %s -> %s without a user edit since it finished", key, bf.Result, af.Result)
			}
		}
		if !bf.FinishTimestamp.Equal(&af.FinishTimestamp) {
			changed = true
			if !editedSince {
				m.fail("C11", "finishTime-changed", "Job %s finish time changed %v -> %v without a user edit since it finished", key, bf.FinishTimestamp.UTC(), af.FinishTimestamp.UTC())
			}
		}
		if changed {
			m.finishedSeq[uid] = e.Seq
		}
	}
	if after.Status.CreatedTasks < before.Status.CreatedTasks {
		m.fail("C11", "createdTasks-decreased", "Job %s createdTasks %d -> %d", key, before.Status.CreatedTasks, after.Status.CreatedTasks)
	}
	for _, bt := range before.Status.Tasks {
		for _, at := range after.Status.Tasks {
			if at.Name != bt.Name {
				continue
			}
			if bt.RunningTimestamp != nil && at.RunningTimestamp == nil {
				m.fail("C11", "running-time-cleared", "task %s of Job %s lost its running timestamp", bt.Name, key)
			}
			if bt.FinishTimestamp != nil && at.FinishTimestamp == nil {
				m.fail("C11", "finish-time-cleared", "task %s of Job %s lost its finish timestamp", bt.Name, key)
			}
		}
	}
	if len(after.Status.Tasks) >= 1 && e.Verb == "updateStatus" {
		m.label("status-with-tasks")
	}
	// coherence of every status the job controller writes
	if e.Actor == "job" && e.Verb == "updateStatus" {
		m.checkCoherent(key, after)
	}
}

func (m *monitor) checkCoherent(key string, j *execution.Job) {
	c := j.Status.Condition
	n := 0
	var want execution.JobState
	if c.Queueing != nil {
		n++
		want = execution.JobStateQueued
	}
	if c.Waiting != nil {
		n++
		want = execution.JobStateWaiting
	}
	if c.Running != nil {
		n++
		want = execution.JobStateRunning
	}
	if c.Finished != nil {
		n++
		want = execution.JobStateFinished
	}
	if n != 1 {
		m.fail("C11", "condition-count", "Job %s has %d conditions set", key, n)
		return
	}
	if j.Status.State != want {
		m.fail("C11", "state-mismatch", "Job %s state %s, condition implies %s", key, j.Status.State, want)
	}
	if terminalPhase(j.Status.Phase) != (c.Finished != nil) {
		m.fail("C11", "phase-terminal-mismatch", "Job %s phase %s, finished condition set: %v", key, j.Status.Phase, c.Finished != nil)
	}
	if j.Status.CreatedTasks != int64(len(j.Status.Tasks)) {
		m.fail("C11", "createdTasks-mismatch", "Job %s createdTasks %d, task list has %d", key, j.Status.CreatedTasks, len(j.Status.Tasks))
	}
	running := int64(0)
	for _, t := range j.Status.Tasks {
		if t.RunningTimestamp != nil && t.FinishTimestamp == nil {
			running++
		}
	}
	if j.Status.RunningTasks != running {
		m.fail("C11", "runningTasks-mismatch", "Job %s runningTasks %d, task list shows %d", key, j.Status.RunningTasks, running)
	}
}

// indexesOf returns the hash of every parallel index of the Job.
func indexHashes(j *execution.Job) []string {
	var par *execution.ParallelismSpec
	if j.Spec.Template != nil {
		par = j.Spec.Template.Parallelism
	}
	var out []string
	for _, ix := range parallel.GenerateIndexes(par) {
		h, _ := parallel.HashIndex(ix)
		out = append(out, h)
	}
	return out
}

func strategyOf(j *execution.Job) execution.ParallelCompletionStrategy {
	if j.Spec.Template != nil && j.Spec.Template.Parallelism != nil && j.Spec.Template.Parallelism.CompletionStrategy != "" {
		return j.Spec.Template.Parallelism.CompletionStrategy
	}
	return execution.AllSuccessful
}

// truthByIndex groups the ground truth of the Job's Pods by index hash.
func (m *monitor) truthByIndex(j *execution.Job) map[string][]*sim.PodTruth {
	out := map[string][]*sim.PodTruth{}
	truths := m.r.w.Truths()
	for _, pcs := range m.podCreatesOf(string(j.UID)) {
		for _, pc := range pcs.list {
			if t := truths[pc.key+"#"+pc.uid]; t != nil {
				out[pcs.hash] = append(out[pcs.hash], t)
			}
		}
	}
	return out
}

type idxCreates struct {
	hash string
	list []podCreate
}

func (m *monitor) podCreatesOf(jobUID string) []idxCreates {
	var out []idxCreates
	for k, v := range m.podCreates {
		if strings.HasPrefix(k, jobUID+"|") {
			out = append(out, idxCreates{hash: k[len(jobUID)+1:], list: v})
		}
	}
	sort.Slice(out, func(i, j int) bool { return out[i].hash < out[j].hash })
	return out
}

// checkTerminal: C10 at the write that makes a Job terminal.
func (m *monitor) checkTerminal(e *sim.Entry, j *execution.Job) {
	fin := j.Status.Condition.Finished
	if fin == nil {
		return
	}
	m.label("job-terminal:" + string(fin.Result))
	if j.DeletionTimestamp != nil {
		return
	}
	// a Job that is not being deleted is finished only when none of its tasks is alive
	for _, p := range m.r.w.API.Pods() {
		if ref := metav1.GetControllerOf(p); ref != nil && ref.UID == j.UID && podAlive(p) {
			cp := m.ctrlCachedPod(keyOf(p))
			if cp == nil && findTaskRef(j, p.Name) == nil {
				// neither recorded (the status write of the sync that created it failed) nor in
				// the controller's cache yet. Since repair 17 the reconciler looks the tasks it
				// would create next up from the API server before it lets a Job finish, so it
				// can know this Pod: counted, and judged like any other live task.
				m.label("unrecorded-uncached-live-pod-at-finish")
			}
			{
				m.fail("C10", "finished-with-live-task", "Job %s reported %s while its task %s is still alive (phase %q)", e.Key, fin.Result, p.Name, p.Status.Phase)
				return
			}
		}
	}
	if j.Spec.KillTimestamp != nil || fin.Result == execution.JobResultAdmissionError || fin.Result == execution.JobResultKilled {
		return
	}
	hashes := indexHashes(j)
	truth := m.truthByIndex(j)
	max := j.GetMaxAttempts()
	succeeded, exhausted := m.tally(hashes, truth, max, false)
	_, exhaustedObs := m.tally(hashes, truth, max, true)
	if len(hashes) >= 2 && succeeded > 0 && succeeded < len(hashes) {
		m.label("mixed-index-outcomes")
	}
	strat := strategyOf(j)
	_ = exhausted
	exhausted = exhaustedObs
	switch fin.Result {
	case execution.JobResultSuccess:
		if (strat == execution.AllSuccessful && succeeded < len(hashes)) || (strat == execution.AnySuccessful && succeeded == 0) {
			m.fail("C10", "succeeded-without-success", "Job %s reported Succeeded (%s) but only %d of %d indexes have a task that really succeeded", e.Key, strat, succeeded, len(hashes))
		}
	case execution.JobResultFailed:
		if (strat == execution.AllSuccessful && exhausted == 0) || (strat == execution.AnySuccessful && exhausted < len(hashes)) {
			m.fail("C10", "failed-while-satisfiable", "Job %s reported Failed (%s) but %d of %d indexes used all %d attempts without success (succeeded: %d)", e.Key, strat, exhausted, len(hashes), max, succeeded)
		}
	}
}

// ---------- Pods ----------

func (m *monitor) onPodEntry(e *sim.Entry) {
	now := e.Time
	if e.Verb == "create" && e.After != nil {
		p := e.After.(*corev1.Pod)
		if e.Actor != "job" {
			return
		}
		jobUID, hash := p.Labels[lblJobUID], p.Labels[lblIndexHash]
		retry, _ := strconv.Atoi(p.Labels[lblRetryIndex])
		k := jobUID + "|" + hash
		prev := m.podCreates[k]
		m.podCreates[k] = append(prev, podCreate{key: e.Key, uid: string(p.UID), retry: retry, at: now})
		m.createdFor[string(p.UID)] = jobUID
		job := m.jobByUID(jobUID)
		if job == nil {
			return
		}
		if len(prev) > 0 {
			m.label("retry-created")
		}
		if len(indexHashes(job)) >= 2 {
			m.label("parallel-job")
		}
		// (2) retry numbers 0,1,2,... without gaps, fewer than maxAttempts. Attempts are
		// counted as the Job recorded them: a Pod that was created but vanished before
		// it could be recorded or adopted (crash + external deletion) leaves no trace,
		// and re-creating that attempt is what the statement asks for.
		recorded := 0
		for n := range m.everTasks[jobUID] {
			if strings.HasPrefix(n, job.Name+"-"+hash+"-") {
				recorded++
			}
		}
		if retry != recorded {
			m.fail("C08", "retry-gap", "Pod %s created with retry %d, but the Job has recorded %d task(s) for this index", p.Name, retry, recorded)
		}
		if m.everTasks[jobUID][p.Name] {
			m.fail("C09", "duplicate-attempt", "Pod %s was created a second time although the Job had already recorded this attempt", p.Name)
		}
		if int64(recorded) >= job.GetMaxAttempts() {
			m.fail("C08", "over-maxAttempts", "Pod %s is attempt %d of an index whose maxAttempts is %d", p.Name, recorded+1, job.GetMaxAttempts())
		}
		// (1) at most one task that is neither finished nor gone; (3) retry delay; (4) nothing after success
		truths := m.r.w.Truths()
		for _, pc := range prev {
			if o := m.r.w.API.Get(sim.ResPods, pc.key); o != nil {
				op := o.(*corev1.Pod)
				if string(op.UID) == pc.uid && podAlive(op) {
					m.fail("C08", "two-live-tasks", "Pod %s created while task %s of the same index still exists and is not finished (phase %q, deleting=%v)", p.Name, op.Name, op.Status.Phase, op.DeletionTimestamp != nil)
				}
			}
			t := truths[pc.key+"#"+pc.uid]
			if t == nil {
				continue
			}
			if _, name := splitKey(pc.key); !m.everTasks[jobUID][name] {
				// created but never recorded or adopted (crash / failed write) and gone since:
				// the controller cannot know about this attempt
				m.label("unrecorded-attempt-vanished")
				continue
			}
			if t.Outcome == sim.OutSuccess {
				if m.successKnown(pc.key + "#" + pc.uid) {
					m.fail("C08", "created-after-success", "Pod %s created for an index whose task %s succeeded (and the controller had seen it)", p.Name, pc.key)
				} else {
					m.label("success-vanished-unobserved")
				}
			}
			fin := t.Finished
			if fin.IsZero() {
				fin = t.Gone
			}
			if !fin.IsZero() {
				earliest := fin.Truncate(time.Second).Add(job.GetRetryDelay())
				if now.Before(earliest) {
					m.fail("C08", "retry-too-early", "Pod %s created at %v; the previous attempt finished at %v and retryDelay is %v", p.Name, now.UTC(), fin.UTC(), job.GetRetryDelay())
				}
				if job.GetRetryDelay() > 0 {
					m.label("retry-after-delay")
				}
			}
		}
		// (5) nothing is created once the controller can know the Job is killed / refused / being deleted
		var cj *execution.Job
		m.atStepStart(func() bool { cj = m.ctrlCachedJob(keyOf(job)); return true }) // as the sync read it
		if cj != nil {
			switch {
			case cj.Spec.KillTimestamp != nil:
				m.fail("C08", "created-after-kill", "Pod %s created although the Job carries a kill timestamp", p.Name)
			case hasAdmErr(cj):
				m.fail("C08", "created-after-admission-error", "Pod %s created although the Job has an admission error", p.Name)
			case cj.DeletionTimestamp != nil:
				m.fail("C08", "created-while-deleting", "Pod %s created although the Job is being deleted", p.Name)
			case cj.Status.Condition.Finished != nil:
				m.fail("C08", "created-after-finish", "Pod %s created although the Job is finished", p.Name)
			}
		}
		if m.rejectedJobs[jobUID] {
			m.fail("C06", "rejected-job-got-task", "Pod %s created for a Job that was refused admission", p.Name)
		}
		return
	}
	if e.Verb == "delete" && e.Actor == "job" && e.Before != nil {
		p := e.Before.(*corev1.Pod)
		ref := metav1.GetControllerOf(p)
		if ref == nil {
			return
		}
		job := m.jobByUID(string(ref.UID))
		if job == nil {
			return
		}
		m.checkDeleteJustified(e, p, job, now)
	}
}

// checkDeleteJustified: C12 - every controller-issued Pod delete must have a reason.
func (m *monitor) checkDeleteJustified(e *sim.Entry, p *corev1.Pod, job *execution.Job, now time.Time) {
	cfg := m.r.tr.Cfg
	var reasons []string
	if kt := job.Spec.KillTimestamp; kt != nil && !kt.Time.After(now) {
		reasons = append(reasons, "kill")
		m.deadlineCrossed = true
	}
	// the kill time as far as the controller can know it (a later edit may not have reached its cache)
	killCached := func() bool {
		cj := m.ctrlCachedJob(keyOf(job))
		return cj != nil && cj.Spec.KillTimestamp != nil && !cj.Spec.KillTimestamp.Time.After(now)
	}
	if killCached() || m.atStepStart(killCached) {
		reasons = append(reasons, "kill(cached)")
	}
	if job.DeletionTimestamp != nil {
		reasons = append(reasons, "job-deleted")
	}
	pending := cfg.pendingDefault()
	if job.Spec.Template != nil && job.Spec.Template.TaskPendingTimeoutSeconds != nil {
		pending = *job.Spec.Template.TaskPendingTimeoutSeconds
	}
	cachedNotRunning := func() bool {
		cp := m.ctrlCachedPod(keyOf(p))
		return cp == nil || cp.Status.Phase == corev1.PodPending || cp.Status.Phase == ""
	}
	notRunning := cachedNotRunning() || m.atStepStart(cachedNotRunning)
	if tr := findTaskRef(job, p.Name); tr != nil && tr.RunningTimestamp != nil {
		notRunning = false
	}
	// "has not begun running within the pending timeout": either the controller cannot
	// know that it runs, or it really began running only after the deadline.
	deadline := p.CreationTimestamp.Add(time.Duration(pending) * time.Second)
	if t := m.r.w.Truths()[keyOf(p)+"#"+string(p.UID)]; t != nil && (t.Started.IsZero() || t.Started.After(deadline)) {
		notRunning = true
	}
	if pending > 0 && notRunning && !now.Before(deadline) {
		reasons = append(reasons, "pending-timeout")
		m.deadlineCrossed = true
		m.label("pending-timeout-delete")
	}
	if ps := job.Status.ParallelStatus; ps != nil && ps.Complete {
		reasons = append(reasons, "strategy-decided")
	} else if m.strategyDecidedKnowable(job) || m.atStepStart(func() bool { return m.strategyDecidedKnowable(job) }) {
		reasons = append(reasons, "strategy-decided")
	}
	if e.Force && p.DeletionTimestamp != nil {
		// the deletion itself was requested (and judged) earlier; only the force conditions apply
		reasons = append(reasons, "already-terminating")
	}
	if len(reasons) == 0 {
		m.fail("C12", "unjustified-delete", "controller deleted task %s of Job %s at %v without a kill time that has passed, a pending timeout (%ds, created %v), a decided strategy or a Job deletion", p.Name, job.Name, now.UTC(), pending, p.CreationTimestamp.UTC())
	}
	if e.Force {
		m.label("force-delete")
		to := cfg.forceDelete()
		switch {
		case to <= 0:
			m.fail("C12", "force-delete-disabled", "task %s force-deleted although force deletion is disabled", p.Name)
		case job.Spec.Template != nil && job.Spec.Template.ForbidTaskForceDeletion:
			m.fail("C12", "force-delete-forbidden", "task %s force-deleted although the Job forbids force deletion", p.Name)
		case p.DeletionTimestamp == nil:
			m.fail("C12", "force-delete-without-graceful", "task %s force-deleted without a prior graceful deletion", p.Name)
		case now.Before(p.DeletionTimestamp.Add(time.Duration(to) * time.Second)):
			m.fail("C12", "force-delete-early", "task %s force-deleted at %v, deletion timestamp %v + %ds not reached", p.Name, now.UTC(), p.DeletionTimestamp.UTC(), to)
		}
	}
}

// knowableFinished returns the finished condition the controller can derive
// right now from its Job and Pod caches (nil if the Job is not finished). No
// Pod of the Job may be alive in the authoritative store either.
func (m *monitor) knowableFinished(job *execution.Job) *execution.JobConditionFinished {
	cj := m.ctrlCachedJob(keyOf(job))
	if cj == nil || m.r.w.Ctrl == nil {
		return nil
	}
	// A Pod the Job controls that is still alive: the controller knows it from its
	// cache, from the live lookup of a recorded task (repair 10), or from the live
	// lookup of the tasks it would create next before it lets a Job finish (repair 17).
	for _, p := range m.r.w.API.Pods() {
		if ref := metav1.GetControllerOf(p); ref != nil && ref.UID == job.UID && podAlive(p) {
			return nil
		}
	}
	var ts []jobtasks.Task
	for _, cp := range m.ctrlCachedPods() {
		if ref := metav1.GetControllerOf(cp); ref != nil && ref.UID == cj.UID {
			ts = append(ts, podtaskexecutor.NewPodTask(cp, nil)) // recorded or adoptable in this very sync
		}
	}
	// A recorded task that is missing from the Pod cache and was never seen finished
	// is looked up from the API server by the reconciler (getTaskForRef).
	for _, ref := range cj.Status.Tasks {
		if ref.FinishTimestamp == nil && m.ctrlCachedPod(cj.Namespace+"/"+ref.Name) == nil {
			if lp := m.r.w.API.Get(sim.ResPods, cj.Namespace+"/"+ref.Name); lp != nil {
				if c := metav1.GetControllerOf(lp.(*corev1.Pod)); c != nil && c.UID == cj.UID {
					ts = append(ts, podtaskexecutor.NewPodTask(lp.(*corev1.Pod), nil))
				}
			}
		}
	}
	upd := jobutil.UpdateJobTaskRefs(cj, ts)
	cond, err := jobutil.GetCondition(upd)
	if err != nil {
		return nil
	}
	return cond.Finished
}

// strategyDecidedKnowable recomputes completion from the task refs the
// controller could derive from its Pod cache right now.
func (m *monitor) strategyDecidedKnowable(job *execution.Job) bool {
	cj := m.ctrlCachedJob(keyOf(job))
	if cj == nil {
		return false
	}
	refs := append([]execution.TaskRef(nil), cj.Status.Tasks...)
	for i := range refs {
		cp := m.ctrlCachedPod(cj.Namespace + "/" + refs[i].Name)
		if cp == nil && refs[i].FinishTimestamp == nil { // live lookup by getTaskForRef
			if lp := m.r.w.API.Get(sim.ResPods, cj.Namespace+"/"+refs[i].Name); lp != nil {
				cp = lp.(*corev1.Pod)
			}
		}
		if cp != nil {
			if cp.Status.Phase == corev1.PodSucceeded {
				refs[i].Status.Result = execution.TaskSucceeded
				if refs[i].FinishTimestamp == nil {
					t := metav1.Now()
					refs[i].FinishTimestamp = &t
				}
			} else if cp.Status.Phase == corev1.PodFailed && refs[i].FinishTimestamp == nil {
				t := metav1.Now()
				refs[i].FinishTimestamp = &t
				refs[i].Status.Result = execution.TaskFailed
			}
		} else if refs[i].FinishTimestamp == nil {
			t := metav1.Now()
			refs[i].FinishTimestamp = &t
		}
	}
	// Pods the controller can see but whose task reference it could not persist yet
	// (the status write failed): the reconciler adopts them in memory in every sync.
	var par *execution.ParallelismSpec
	if cj.Spec.Template != nil {
		par = cj.Spec.Template.Parallelism
	}
	indexes := parallel.GenerateIndexes(par)
	if m.r.w.Ctrl != nil {
		for _, cp := range m.ctrlCachedPods() {
			if ref := metav1.GetControllerOf(cp); ref == nil || ref.UID != cj.UID || findTaskRef(cj, cp.Name) != nil {
				continue
			}
			for i := range indexes {
				h, _ := parallel.HashIndex(indexes[i])
				if !strings.HasPrefix(cp.Name, cj.Name+"-"+h+"-") {
					continue
				}
				nr := execution.TaskRef{Name: cp.Name, ParallelIndex: &indexes[i]}
				t := metav1.Now()
				switch cp.Status.Phase {
				case corev1.PodSucceeded:
					nr.FinishTimestamp, nr.Status.Result = &t, execution.TaskSucceeded
				case corev1.PodFailed:
					nr.FinishTimestamp, nr.Status.Result = &t, execution.TaskFailed
				}
				refs = append(refs, nr)
			}
		}
	}
	s, err := parallel.GetParallelTaskSummary(cj, refs)
	return err == nil && s.Complete
}

func findTaskRef(j *execution.Job, name string) *execution.TaskRef {
	for i := range j.Status.Tasks {
		if j.Status.Tasks[i].Name == name {
			return &j.Status.Tasks[i]
		}
	}
	return nil
}

// ---------- JobConfigs ----------

func (m *monitor) onJobConfigEntry(e *sim.Entry) {
	if e.Before == nil || e.After == nil {
		return
	}
	b, a := e.Before.(*execution.JobConfig), e.After.(*execution.JobConfig)
	if b.Status.LastScheduled != nil && (a.Status.LastScheduled == nil || a.Status.LastScheduled.Time.Before(b.Status.LastScheduled.Time)) {
		m.fail("C15", "lastScheduled-backwards", "JobConfig %s lastScheduled moved from %v to %v", e.Key, b.Status.LastScheduled, a.Status.LastScheduled)
	}
	if b.Status.LastExecuted != nil && (a.Status.LastExecuted == nil || a.Status.LastExecuted.Time.Before(b.Status.LastExecuted.Time)) {
		m.fail("C15", "lastExecuted-backwards", "JobConfig %s lastExecuted moved from %v to %v", e.Key, b.Status.LastExecuted, a.Status.LastExecuted)
	}
}

// ---------- after every step ----------

// restartBounds is captured whenever the controller process (re)starts.
type restartBound struct {
	at            time.Time
	lastScheduled map[string]time.Time // JobConfig key -> persisted status.lastScheduled at the restart
	reqIndex      int
}

func (m *monitor) checkRestartBounds() {
	w := m.r.w
	if w.Restarts != m.seenRestarts {
		m.seenRestarts = w.Restarts
		m.bound = &restartBound{at: w.StartedAt, lastScheduled: w.PersistedAtStart, reqIndex: w.RequestsAtStart}
		m.reqChecked = w.RequestsAtStart
	}
	if m.bound == nil {
		m.reqChecked = len(w.Requests)
		return
	}
	for _, q := range w.Requests[m.reqChecked:] {
		m.label("request-after-restart")
		if ls, ok := m.bound.lastScheduled[q.Key]; ok && !q.Time.After(ls) {
			m.fail("C04", "rerequested-after-restart", "after the restart at %v, %s was requested for %v although lastScheduled %v was already recorded", m.bound.at.UTC(), q.Key, q.Time.UTC(), ls.UTC())
		}
		if q.Time.Before(m.bound.at.Add(-301 * time.Second)) {
			m.fail("C04", "catchup-beyond-downtime", "after the restart at %v, %s was requested for %v, more than the default 300 s downtime threshold in the past", m.bound.at.UTC(), q.Key, q.Time.UTC())
		}
	}
	m.reqChecked = len(w.Requests)
}

func (m *monitor) afterStep() {
	m.checkRestartBounds()
	// classification only: a terminating task that outlived the force-delete timeout of a Job that forbids force deletion
	if !m.labels["force-forbidden-outlived"] {
		if to := m.r.tr.Cfg.forceDelete(); to > 0 {
			now := m.r.w.Clock.Now()
			for _, p := range m.r.w.API.Pods() {
				if p.DeletionTimestamp == nil || now.Before(p.DeletionTimestamp.Add(time.Duration(to)*time.Second)) {
					continue
				}
				if ref := metav1.GetControllerOf(p); ref != nil {
					for _, j := range m.r.w.API.Jobs() {
						if j.UID == ref.UID && j.Spec.Template != nil && j.Spec.Template.ForbidTaskForceDeletion {
							m.label("force-forbidden-outlived")
						}
					}
				}
			}
		}
	}
	// classification only: an Enqueue Job that is waiting because its JobConfig is at the limit
	if !m.labels["enqueue-waiting-at-limit"] {
		jobs := m.r.w.API.Jobs()
		active := map[string]int64{}
		for _, j := range jobs {
			if isActive(j) {
				active[jcUIDOf(j)]++
			}
		}
		for _, j := range jobs {
			if uid := jcUIDOf(j); uid != "" && isQueued(j) && j.DeletionTimestamp == nil && policyOf(j) == execution.ConcurrencyPolicyEnqueue {
				if jc := m.jcByUID(uid); jc != nil && active[uid] >= jc.Spec.Concurrency.GetMaxConcurrency() {
					m.label("enqueue-waiting-at-limit")
				}
			}
		}
	}
	// C02: at most one scheduled Job per (JobConfig, schedule time); name, annotation, owner, label agree
	seen := map[string]string{}
	for _, j := range m.r.w.API.Jobs() {
		ann, ok := j.Annotations[annScheduleTime]
		if !ok || j.Spec.Type != execution.JobTypeScheduled {
			// only scheduled Jobs; an ad-hoc Job may inherit whatever annotations the
			// JobConfig's template carries
			continue
		}
		ref := metav1.GetControllerOf(j)
		if ref == nil || ref.Kind != "JobConfig" {
			m.fail("C02", "scheduled-job-without-owner", "scheduled Job %s has no controlling JobConfig", j.Name)
			continue
		}
		k := string(ref.UID) + "@" + ann
		if other, dup := seen[k]; dup {
			m.fail("C02", "duplicate-scheduled-job", "Jobs %s and %s both belong to JobConfig %s and schedule time %s", other, j.Name, ref.Name, ann)
		}
		seen[k] = j.Name
		if want := ref.Name + "-" + ann; j.Name != want {
			m.fail("C02", "name-not-function-of-time", "scheduled Job %s should be named %s", j.Name, want)
		}
		if j.Labels[labelJobConfigUID] != string(ref.UID) {
			m.fail("C02", "uid-label-mismatch", "scheduled Job %s: label %q, owner UID %q", j.Name, j.Labels[labelJobConfigUID], ref.UID)
		}
		n := 0
		for _, o := range j.OwnerReferences {
			if o.Controller != nil && *o.Controller {
				n++
			}
		}
		if n != 1 {
			m.fail("C02", "owner-count", "scheduled Job %s has %d controller references", j.Name, n)
		}
	}
}

// ---------- quiescent checks ----------

// drive lets the kubelet bring every Pod to an end and the controllers settle,
// advancing the clock in small steps; cron is not ticked.
func (m *monitor) drive(rounds int, step time.Duration) bool {
	w := m.r.w
	// Work that is still progressing when the rounds are used up is given more
	// rounds (a long Enqueue backlog of Jobs with many attempts); a system in which
	// nothing was written for 20 rounds (longer than every deadline there is) is at
	// a fixpoint, quiet or stuck, and is judged as it is.
	lastActivity, lastLedger := 0, len(w.API.Ledger)
	for i := 0; i < rounds*4; i++ {
		if len(w.API.Ledger) != lastLedger {
			lastActivity, lastLedger = i, len(w.API.Ledger)
		}
		if i >= rounds && i-lastActivity >= 20 {
			return true
		}
		if !m.r.settle() {
			return false
		}
		busy := false
		for _, p := range w.API.Pods() {
			k := keyOf(p)
			switch {
			case p.DeletionTimestamp != nil:
				busy = w.KubeletTerminate(k) || busy
			case p.Spec.NodeName == "":
				busy = w.KubeletSchedule(k) || busy
			case p.Status.Phase == corev1.PodPending:
				busy = w.KubeletRun(k) || busy
			case p.Status.Phase == corev1.PodRunning && len(p.Status.ContainerStatuses) == 0:
				busy = w.KubeletUnflap(k) || busy
			case p.Status.Phase == corev1.PodRunning:
				out := sim.OutSuccess
				if len(p.Name)%3 == 0 {
					out = sim.OutFail
				}
				busy = w.KubeletFinish(k, out) || busy
			}
		}
		if !m.r.settle() {
			return false
		}
		w.Advance(step)
		if !m.r.settle() {
			return false
		}
		m.checkDueStarted()
		if !busy && i > 2 {
			quiet := true
			for _, p := range w.API.Pods() {
				if podAlive(p) || p.DeletionTimestamp != nil {
					quiet = false
				}
			}
			for _, j := range w.API.Jobs() {
				if !terminalPhase(j.Status.Phase) && (isStarted(j) || j.DeletionTimestamp != nil) {
					quiet = false
				}
			}
			if quiet {
				return true
			}
		}
	}
	// Out of rounds with work still in flight (e.g. a long Enqueue backlog of Jobs
	// with many attempts): nothing can be concluded about quiescence.
	m.label("inconclusive-drive-bound")
	return false
}

// checkDueStarted: C07 - at a fixpoint reached by the controllers' own deferred
// re-syncs (no resync, no user action), every Job whose startAfter passed at
// least a second ago and which the concurrency policy allows to start is started.
func (m *monitor) checkDueStarted() {
	w := m.r.w
	now := w.Clock.Now()
	jobs := w.API.Jobs()
	active := map[string]int64{}
	for _, j := range jobs {
		if isActive(j) {
			active[jcUIDOf(j)]++
		}
	}
	for _, j := range jobs {
		sa := j.Spec.StartPolicy
		if !isQueued(j) || j.DeletionTimestamp != nil || hasAdmErr(j) || sa == nil || sa.StartAfter == nil || sa.StartAfter.Time.After(now.Add(-time.Second)) {
			continue
		}
		uid := jcUIDOf(j)
		if uid != "" {
			jc := m.jcByUID(uid)
			if jc == nil {
				continue
			}
			if pol := policyOf(j); (pol == execution.ConcurrencyPolicyEnqueue || pol == execution.ConcurrencyPolicyForbid) && active[uid] >= jc.Spec.Concurrency.GetMaxConcurrency() {
				continue
			}
		}
		m.fail("C07", "due-not-started-at-fixpoint", "Job %s has startAfter %v, the clock is %v, nothing blocks it, every queue is empty - but it is still not started", j.Name, sa.StartAfter.UTC(), now.UTC())
	}
}

func (m *monitor) finale() {
	w := m.r.w
	w.API.Crash = nil // an armed crash that never fired is dropped: the finale is fault-free
	w.API.Faults = nil
	if !w.Alive {
		w.Kill()
		if err := w.StartProcess(); err != nil {
			panic(err)
		}
	}
	w.API.Faults = nil
	m.opIndex = len(m.r.tr.Ops)
	// whoever holds a foreign finalizer releases it now, so that deletions can complete
	for _, j := range w.API.Jobs() {
		for _, f := range j.Finalizers {
			if f == foreignFinalizer {
				m.r.releaseForeignFinalizer(keyOf(j))
			}
		}
	}
	if !m.r.settle() {
		m.label("inconclusive-livelock")
		return
	}
	// C15 is judged here already, before any resync: everything has been delivered
	// and every queue is empty, so the status must be the truth without the help of
	// the periodic resync.
	m.checkJobConfigStatus("before-resync")
	if m.first() != nil {
		return
	}
	// Event-driven progress under cross-resource lag is judged after one resync
	// round (DESIGN.md 3.4); deadline-driven progress is judged by the armed
	// re-syncs alone, so no resync happens after this point.
	for _, res := range sim.AllRes {
		w.Resync(res)
	}
	if !m.drive(60, 61*time.Second) || m.first() != nil {
		return
	}
	// beyond every startAfter, retry delay, pending timeout and kill time; still within the long TTLs
	m.quiescentChecks()
	if m.first() != nil {
		return
	}
	// TTL: after the longest TTL every finished Job is gone
	for i := 0; i < 3; i++ {
		w.Advance(2 * time.Hour)
		// two hours contain many informer resyncs (10 min by default): progress that
		// only a resync can trigger (the removal of a Pod whose owner reference was
		// stripped is not mapped to its Job) has happened by now
		for _, res := range sim.AllRes {
			w.Resync(res)
		}
		if !m.drive(6, 61*time.Second) || m.first() != nil {
			return
		}
	}
	for _, j := range w.API.Jobs() {
		if fin := j.Status.Condition.Finished; fin != nil && fin.FinishTimestamp.Add(90*time.Minute).Before(w.Clock.Now()) {
			m.fail("C13", "ttl-not-deleted", "finished Job %s (finish %v, ttl %ss) still exists at %v", j.Name, fin.FinishTimestamp.UTC(), deref64(j.Spec.TTLSecondsAfterFinished), w.Clock.Now().UTC())
		}
		if j.DeletionTimestamp != nil {
			m.fail("C13", "deletion-stuck", "Job %s is being deleted, its tasks are gone, but it still exists", j.Name)
		}
	}
}

// checkJobConfigStatus: C15 - the status of every JobConfig equals the
// authoritative sets.
func (m *monitor) checkJobConfigStatus(when string) {
	w := m.r.w
	byJC := map[string][]*execution.Job{}
	for _, j := range w.API.Jobs() {
		if u := jcUIDOf(j); u != "" {
			byJC[u] = append(byJC[u], j)
		}
	}
	for _, jc := range w.API.JobConfigs() {
		var active, queued []string
		for _, j := range byJC[string(jc.UID)] {
			if isActive(j) {
				active = append(active, j.Name)
			}
			if isQueued(j) {
				queued = append(queued, j.Name)
			}
		}
		sort.Strings(active)
		sort.Strings(queued)
		gotA, gotQ := refNames(jc.Status.ActiveJobs), refNames(jc.Status.QueuedJobs)
		if strings.Join(gotA, ",") != strings.Join(active, ",") || jc.Status.Active != int64(len(active)) {
			m.fail("C15", "active-mismatch-"+when, "JobConfig %s status lists active %v (count %d), truth %v", jc.Name, gotA, jc.Status.Active, active)
		}
		if strings.Join(gotQ, ",") != strings.Join(queued, ",") || jc.Status.Queued != int64(len(queued)) {
			m.fail("C15", "queued-mismatch-"+when, "JobConfig %s status lists queued %v (count %d), truth %v", jc.Name, gotQ, jc.Status.Queued, queued)
		}
	}
}

func (m *monitor) quiescentChecks() {
	w := m.r.w
	now := w.Clock.Now()
	jobs := w.API.Jobs()
	pods := w.API.Pods()
	byJC := map[string][]*execution.Job{}
	for _, j := range jobs {
		if u := jcUIDOf(j); u != "" {
			byJC[u] = append(byJC[u], j)
		}
	}
	for _, jc := range w.API.JobConfigs() {
		uid := string(jc.UID)
		var active, queued []string
		var maxSched, maxStart time.Time
		for _, j := range byJC[uid] {
			if isActive(j) {
				active = append(active, j.Name)
			}
			if isQueued(j) {
				queued = append(queued, j.Name)
			}
			if ann, ok := j.Annotations[annScheduleTime]; ok {
				if ts, err := strconv.ParseInt(ann, 10, 64); err == nil && time.Unix(ts, 0).After(maxSched) {
					maxSched = time.Unix(ts, 0)
				}
			}
			if isStarted(j) && j.Status.StartTime.Time.After(maxStart) {
				maxStart = j.Status.StartTime.Time
			}
		}
		// C05: the in-memory counter equals the truth
		if w.Store != nil {
			if got := w.Store.CountActiveJobsForConfig(jc); got != int64(len(active)) {
				m.fail("C05", "counter-drift", "active counter of JobConfig %s is %d, but %d Job(s) are started and not finished: %v", jc.Name, got, len(active), active)
			}
		}
		// C15: status tells the truth
		sort.Strings(active)
		sort.Strings(queued)
		gotA, gotQ := refNames(jc.Status.ActiveJobs), refNames(jc.Status.QueuedJobs)
		if strings.Join(gotA, ",") != strings.Join(active, ",") || jc.Status.Active != int64(len(active)) {
			m.fail("C15", "active-mismatch", "JobConfig %s status lists active %v (count %d), truth %v", jc.Name, gotA, jc.Status.Active, active)
		}
		if strings.Join(gotQ, ",") != strings.Join(queued, ",") || jc.Status.Queued != int64(len(queued)) {
			m.fail("C15", "queued-mismatch", "JobConfig %s status lists queued %v (count %d), truth %v", jc.Name, gotQ, jc.Status.Queued, queued)
		}
		wantState := execution.JobConfigReady
		switch {
		case len(active) > 0:
			wantState = execution.JobConfigExecuting
		case len(queued) > 0:
			wantState = execution.JobConfigJobQueued
		case jc.Spec.Schedule != nil && jc.Spec.Schedule.Cron != nil && jc.Spec.Schedule.Disabled:
			wantState = execution.JobConfigReadyDisabled
		case jc.Spec.Schedule != nil && jc.Spec.Schedule.Cron != nil:
			wantState = execution.JobConfigReadyEnabled
		}
		if jc.Status.State != wantState {
			m.fail("C15", "state-mismatch", "JobConfig %s state %s, want %s (active %v queued %v)", jc.Name, jc.Status.State, wantState, active, queued)
		}
		if !maxSched.IsZero() && (jc.Status.LastScheduled == nil || jc.Status.LastScheduled.Time.Before(maxSched)) {
			m.fail("C15", "lastScheduled-low", "JobConfig %s lastScheduled %v, but a Job for %v exists", jc.Name, jc.Status.LastScheduled, maxSched.UTC())
		}
		if !maxStart.IsZero() && (jc.Status.LastExecuted == nil || jc.Status.LastExecuted.Time.Before(maxStart)) {
			m.fail("C15", "lastExecuted-low", "JobConfig %s lastExecuted %v, but a Job started at %v", jc.Name, jc.Status.LastExecuted, maxStart.UTC())
		}
		// C06(d): nothing startable stays queued
		max := jc.Spec.Concurrency.GetMaxConcurrency()
		for _, j := range byJC[uid] {
			if !isQueued(j) || j.DeletionTimestamp != nil || hasAdmErr(j) {
				continue
			}
			if sa := j.Spec.StartPolicy; sa != nil && sa.StartAfter != nil && sa.StartAfter.Time.After(now) {
				continue
			}
			switch policyOf(j) {
			case execution.ConcurrencyPolicyEnqueue:
				if int64(len(active)) < max {
					m.fail("C06", "enqueue-stuck", "Enqueue Job %s is still queued although JobConfig %s has %d active Job(s), maxConcurrency %d", j.Name, jc.Name, len(active), max)
				}
				m.label("enqueue-waiting-at-limit")
			case execution.ConcurrencyPolicyForbid:
				m.fail("C06", "forbid-stuck", "Forbid Job %s is still queued at quiescence (neither started nor refused)", j.Name)
			default:
				m.fail("C06", "allow-stuck", "Allow Job %s is still queued at quiescence", j.Name)
			}
		}
	}
	for _, j := range jobs {
		uid := string(j.UID)
		// C07: every due independent Job is started
		if jcUIDOf(j) == "" && isQueued(j) && j.DeletionTimestamp == nil && !hasAdmErr(j) {
			if sa := j.Spec.StartPolicy; sa == nil || sa.StartAfter == nil || !sa.StartAfter.Time.After(now) {
				m.fail("C07", "independent-not-started", "Job %s without a JobConfig is due but was never started", j.Name)
			}
		}
		// C06(a): a refused Job ends in AdmissionError
		if m.rejectedJobs[uid] && j.DeletionTimestamp == nil && j.Status.Phase != execution.JobAdmissionError {
			m.fail("C06", "rejected-not-terminal", "Job %s was refused admission but its phase is %s", j.Name, j.Status.Phase)
		}
		// C12: a killed Job is over
		if kt := j.Spec.KillTimestamp; kt != nil && !kt.Time.After(now) && isStarted(j) && j.DeletionTimestamp == nil {
			m.deadlineCrossed = true
			if j.Status.Phase != execution.JobKilled && j.Status.Phase != execution.JobAdmissionError {
				m.fail("C12", "kill-not-terminal", "Job %s has a kill time %v that passed (now %v) but its phase is %s", j.Name, kt.UTC(), now.UTC(), j.Status.Phase)
			}
		}
		// C10 converse / C09 listing
		owned := 0
		for _, p := range pods {
			if ref := metav1.GetControllerOf(p); ref != nil && ref.UID == j.UID {
				owned++
				if findTaskRef(j, p.Name) == nil {
					m.fail("C09", "task-not-listed", "Pod %s is controlled by Job %s but not listed in its status", p.Name, j.Name)
				}
				if podAlive(p) && kt(j, now) {
					m.fail("C12", "kill-task-alive", "task %s of killed Job %s is still alive at quiescence", p.Name, j.Name)
				}
			}
		}
		for _, tr := range j.Status.Tasks {
			if o := w.API.Get(sim.ResPods, j.Namespace+"/"+tr.Name); o != nil {
				if ref := metav1.GetControllerOf(o.(*corev1.Pod)); ref == nil || ref.UID != j.UID {
					m.fail("C09", "foreign-task-listed", "Job %s lists Pod %s which it does not control", j.Name, tr.Name)
				}
			}
		}
		if isStarted(j) && j.DeletionTimestamp == nil && !hasAdmErr(j) && j.Spec.KillTimestamp == nil {
			m.checkConverse(j)
		}
	}
	if m.deadlineCrossed {
		m.label("deadline-crossed")
	}
	// C09: a foreign object on a task's name is never adopted and does not leave the Job retrying forever
	for pk, jobName := range m.foreign {
		if w.API.Get(sim.ResPods, pk) == nil {
			continue
		}
		for _, j := range jobs {
			if j.Name != jobName || j.DeletionTimestamp != nil || !isStarted(j) {
				continue
			}
			if !terminalPhase(j.Status.Phase) {
				m.fail("C09", "foreign-pod-job-stuck", "Job %s needs task name %s, which is occupied by a Pod it does not control, and is still %s at quiescence instead of ending in AdmissionError", j.Name, pk, j.Status.Phase)
			}
		}
	}
}

func kt(j *execution.Job, now time.Time) bool {
	return j.Spec.KillTimestamp != nil && !j.Spec.KillTimestamp.Time.After(now)
}

// tally counts the indexes with a successful task and those that used all
// attempts without one. With observedOnly, a success counts only if the
// controller could see it (see monitor.observed).
func (m *monitor) tally(hashes []string, truth map[string][]*sim.PodTruth, max int64, observedOnly bool) (succeeded, exhausted int) {
	for _, h := range hashes {
		ok := false
		for _, t := range truth[h] {
			if t.Outcome == sim.OutSuccess && (!observedOnly || m.successKnown(t.Key)) {
				ok = true
			}
		}
		if ok {
			succeeded++
		} else if int64(len(truth[h])) >= max {
			exhausted++
		}
	}
	return
}

// checkConverse: C10 - once the strategy is decided by what really happened
// (and could be seen), the Job has that result at quiescence.
func (m *monitor) checkConverse(j *execution.Job) {
	hashes := indexHashes(j)
	truth := m.truthByIndex(j)
	max := j.GetMaxAttempts()
	succeeded, exhausted := m.tally(hashes, truth, max, true)
	strat := strategyOf(j)
	decidedSuccess := (strat == execution.AllSuccessful && succeeded == len(hashes)) || (strat == execution.AnySuccessful && succeeded > 0)
	decidedFailure := (strat == execution.AllSuccessful && exhausted > 0) || (strat == execution.AnySuccessful && exhausted == len(hashes))
	fin := j.Status.Condition.Finished
	switch {
	case decidedSuccess && (fin == nil || fin.Result != execution.JobResultSuccess):
		m.fail("C10", "success-not-reported", "Job %s: the strategy %s is satisfied by tasks that succeeded and were seen by the controller, but the Job is %s", j.Name, strat, phaseOrResult(j))
	case !decidedSuccess && decidedFailure && (fin == nil || fin.Result != execution.JobResultFailed):
		m.fail("C10", "failure-not-reported", "Job %s: %d of %d indexes used all %d attempts without success (%s), but the Job is %s", j.Name, exhausted, len(hashes), max, strat, phaseOrResult(j))
	case !decidedSuccess && !decidedFailure:
		m.fail("C10", "undecided-at-quiescence", "Job %s is neither satisfiable nor exhausted at quiescence: %d succeeded, %d exhausted of %d indexes, phase %s", j.Name, succeeded, exhausted, len(hashes), j.Status.Phase)
	}
}

func phaseOrResult(j *execution.Job) string {
	if f := j.Status.Condition.Finished; f != nil {
		return fmt.Sprintf("%s/%s", j.Status.Phase, f.Result)
	}
	return string(j.Status.Phase)
}

func refNames(refs []execution.JobReference) []string {
	out := make([]string, 0, len(refs))
	for _, r := range refs {
		out = append(out, r.Name)
	}
	sort.Strings(out)
	return out
}
