package props

import (
	"fmt"
	"sort"
	"strconv"
	"strings"
	"testing"

	corev1 "k8s.io/api/core/v1"
	metav1 "k8s.io/apimachinery/pkg/apis/meta/v1"
	"k8s.io/apimachinery/pkg/util/validation/field"
	"k8s.io/utils/pointer"
	"pgregory.net/rapid"

	execution "github.com/furiko-io/furiko/apis/execution/v1alpha1"
	"github.com/furiko-io/furiko/pkg/execution/taskexecutor/podtaskexecutor"
	"github.com/furiko-io/furiko/pkg/execution/tasks"
	jobutil "github.com/furiko-io/furiko/pkg/execution/util/job"
	"github.com/furiko-io/furiko/pkg/execution/util/parallel"
	"github.com/furiko-io/furiko/pkg/execution/validation"
	"github.com/furiko-io/furiko/pkg/runtime/controllercontext/mock"

	"verif/harness/pbt"
)

// ParCase is a generated parallelism spec. Matrix is kept as an ordered list so
// that maps can be rebuilt in different insertion orders.
type ParCase struct {
	Kind     string      `json:"kind"` // none|count|keys|matrix
	Count    int64       `json:"count,omitempty"`
	Keys     []string    `json:"keys,omitempty"`
	Matrix   []MatrixDim `json:"matrix,omitempty"`
	Strategy string      `json:"strategy,omitempty"`
	JobName  string      `json:"jobName"`
	Retries  int         `json:"retries"`
	Rot      int         `json:"rot"` // rotation used when rebuilding maps
}

type MatrixDim struct {
	Key    string   `json:"key"`
	Values []string `json:"values"`
}

func (c ParCase) spec(rot int) *execution.ParallelismSpec {
	s := &execution.ParallelismSpec{CompletionStrategy: execution.ParallelCompletionStrategy(c.Strategy)}
	switch c.Kind {
	case "count":
		s.WithCount = pointer.Int64(c.Count)
	case "keys":
		s.WithKeys = append([]string(nil), c.Keys...)
	case "matrix":
		s.WithMatrix = map[string][]string{}
		n := len(c.Matrix)
		for i := 0; i < n; i++ {
			d := c.Matrix[(i+rot)%n]
			s.WithMatrix[d.Key] = append([]string(nil), d.Values...)
		}
	}
	return s
}

// refIndexes is the independent expansion: 0..N-1, the keys, or the cartesian
// product with keys sorted and the last key varying fastest.
func (c ParCase) refIndexes() []execution.ParallelIndex {
	switch c.Kind {
	case "count":
		out := make([]execution.ParallelIndex, 0, c.Count)
		for i := int64(0); i < c.Count; i++ {
			out = append(out, execution.ParallelIndex{IndexNumber: pointer.Int64(i)})
		}
		return out
	case "keys":
		out := make([]execution.ParallelIndex, 0, len(c.Keys))
		for _, k := range c.Keys {
			out = append(out, execution.ParallelIndex{IndexKey: k})
		}
		return out
	case "matrix":
		dims := append([]MatrixDim(nil), c.Matrix...)
		sort.Slice(dims, func(i, j int) bool { return dims[i].Key < dims[j].Key })
		out := []map[string]string{{}}
		for _, d := range dims {
			var next []map[string]string
			for _, base := range out {
				for _, v := range d.Values {
					m := map[string]string{}
					for k, vv := range base {
						m[k] = vv
					}
					m[d.Key] = v
					next = append(next, m)
				}
			}
			out = next
		}
		res := make([]execution.ParallelIndex, 0, len(out))
		for _, m := range out {
			res = append(res, execution.ParallelIndex{MatrixValues: m})
		}
		return res
	}
	return []execution.ParallelIndex{{IndexNumber: pointer.Int64(0)}}
}

func idxString(ix execution.ParallelIndex) string {
	switch {
	case ix.IndexNumber != nil:
		return "n:" + strconv.FormatInt(*ix.IndexNumber, 10)
	case ix.IndexKey != "":
		return "k:" + strconv.Quote(ix.IndexKey)
	default:
		ks := make([]string, 0, len(ix.MatrixValues))
		for k := range ix.MatrixValues {
			ks = append(ks, k)
		}
		sort.Strings(ks)
		var sb strings.Builder
		sb.WriteString("m:")
		for _, k := range ks {
			sb.WriteString(strconv.Quote(k) + "=" + strconv.Quote(ix.MatrixValues[k]) + ";")
		}
		return sb.String()
	}
}

var keyAlphabet = []string{"a", "b", "ab", "ba", "a-b", "a_b", "x", "xy", "yx", "0", "1", "01", "10", "A", "é", " ", "a ", " a"}

func genKeyish(t *rapid.T, label string) string {
	// '$' is mapped away: values that contain variable syntax belong to C18.
	return strings.ReplaceAll(rapid.OneOf(
		rapid.SampledFrom(keyAlphabet),
		rapid.StringMatching(`[a-c0-2]{1,4}`),
		rapid.StringMatching(`[a-z0-9._-]{1,12}`),
		rapid.StringN(1, 8, -1),
	).Draw(t, label), "$", "S")
}

func genParCase(maxCount int64) func(t *rapid.T) ParCase {
	return func(t *rapid.T) ParCase {
		c := ParCase{
			Kind:     rapid.SampledFrom([]string{"none", "count", "count", "keys", "keys", "matrix", "matrix"}).Draw(t, "kind"),
			Strategy: rapid.SampledFrom([]string{"", "AllSuccessful", "AnySuccessful"}).Draw(t, "strategy"),
			JobName:  rapid.StringMatching(`[a-z]([a-z0-9-]{0,12}[a-z0-9])?`).Draw(t, "jobName"),
			Retries:  rapid.IntRange(1, 4).Draw(t, "retries"),
			Rot:      rapid.IntRange(0, 5).Draw(t, "rot"),
		}
		switch c.Kind {
		case "count":
			c.Count = rapid.OneOf(rapid.Int64Range(1, 12), rapid.Int64Range(1, maxCount)).Draw(t, "count")
		case "keys":
			n := rapid.IntRange(1, 40).Draw(t, "nkeys")
			dup := rapid.IntRange(0, 9).Draw(t, "dupMode") == 0 // occasionally allow duplicates (must then be rejected)
			seen := map[string]bool{}
			for len(c.Keys) < n {
				k := genKeyish(t, "key")
				if seen[k] && !dup {
					k = k + strconv.Itoa(len(c.Keys))
					if seen[k] {
						continue
					}
				}
				seen[k] = true
				c.Keys = append(c.Keys, k)
			}
		case "matrix":
			nk := rapid.IntRange(1, 4).Draw(t, "ndims")
			seenK := map[string]bool{}
			for len(c.Matrix) < nk {
				k := rapid.OneOf(rapid.SampledFrom([]string{"a", "b", "ab", "a-b", "a_b", "os", "arch", "0"}), rapid.StringMatching(`[a-z0-9_-]{1,6}`)).Draw(t, "mkey")
				if seenK[k] {
					continue
				}
				seenK[k] = true
				nv := rapid.IntRange(1, 5).Draw(t, "nvals")
				dupV := rapid.IntRange(0, 9).Draw(t, "dupVal") == 0
				seenV := map[string]bool{}
				var vals []string
				for len(vals) < nv {
					v := genKeyish(t, "mval")
					if seenV[v] && !dupV {
						v = v + strconv.Itoa(len(vals))
						if seenV[v] {
							continue
						}
					}
					seenV[v] = true
					vals = append(vals, v)
				}
				c.Matrix = append(c.Matrix, MatrixDim{Key: k, Values: vals})
			}
		}
		return c
	}
}

func newValidator() *validation.Validator {
	return validation.NewValidator(mock.NewContext())
}

func equalIndex(a, b execution.ParallelIndex) bool { return idxString(a) == idxString(b) }

func c14Labels(c ParCase, n int) []string {
	l := []string{"kind:" + c.Kind}
	switch {
	case n >= 100:
		l = append(l, "n>=100")
	case n >= 10:
		l = append(l, "n>=10")
	case n >= 2:
		l = append(l, "n>=2")
	default:
		l = append(l, "n=1")
	}
	return l
}

// TestC14_expand: GenerateIndexes yields exactly the requested set in a
// deterministic order (same on repeated calls, same for maps built in another
// insertion order).
func TestC14_expand(t *testing.T) {
	maxCount := int64(300)
	if pbt.Thorough() {
		maxCount = 5000
	}
	pbt.Check(t, pbt.Opts{ID: "C14", Name: "expand", Checks: 6000, ThoroughMul: 15,
		Rule: "random parallelism spec (none/withCount/withKeys/withMatrix); non-trivial = at least 2 indexes; distinct = distinct spec"},
		genParCase(maxCount), func(c ParCase) pbt.Result {
			ref := c.refIndexes()
			res := pbt.Result{Labels: c14Labels(c, len(ref)), NonTrivial: len(ref) >= 2}
			var first []execution.ParallelIndex
			for rep := 0; rep < 3; rep++ {
				got := parallel.GenerateIndexes(c.spec(c.Rot * rep))
				if len(got) != len(ref) {
					res.Violation = pbt.V("C14", "expand/len", "GenerateIndexes returned %d indexes, want %d", len(got), len(ref))
					return res
				}
				for i := range ref {
					if !equalIndex(got[i], ref[i]) {
						res.Violation = pbt.V("C14", "expand/content", "index %d = %s, want %s", i, idxString(got[i]), idxString(ref[i]))
						return res
					}
				}
				if rep == 0 {
					first = got
				} else {
					for i := range got {
						if !equalIndex(got[i], first[i]) {
							res.Violation = pbt.V("C14", "expand/order", "order differs between calls at %d", i)
							return res
						}
					}
				}
			}
			return res
		})
}

// TestC14_distinct: for every spec accepted by ValidateParallelismSpec, distinct
// indexes have distinct hashes, distinct task names for every retry, their own
// status slot and their own creation request. Specs for which this cannot hold
// must be rejected.
func TestC14_distinct(t *testing.T) {
	maxCount := int64(300)
	if pbt.Thorough() {
		maxCount = 5000
	}
	v := newValidator()
	pbt.Check(t, pbt.Opts{ID: "C14", Name: "distinct", Checks: 4000, ThoroughMul: 10,
		Rule: "random parallelism spec accepted by ValidateParallelismSpec; non-trivial = accepted with at least 2 indexes; distinct = distinct spec"},
		genParCase(maxCount), func(c ParCase) pbt.Result {
			spec := c.spec(0)
			if c.Kind == "none" {
				spec.WithCount = pointer.Int64(1)
			}
			errs := v.ValidateParallelismSpec(spec, field.NewPath("spec"))
			indexes := parallel.GenerateIndexes(spec)
			res := pbt.Result{Labels: c14Labels(c, len(indexes))}
			if len(errs) > 0 {
				res.Labels = append(res.Labels, "rejected")
				return res
			}
			res.Labels = append(res.Labels, "accepted")
			res.NonTrivial = len(indexes) >= 2
			// identity: distinct hash / name / slot
			byHash := map[string]int{}
			names := map[string]string{}
			for i, ix := range indexes {
				h, err := parallel.HashIndex(ix)
				if err != nil {
					res.Violation = pbt.V("C14", "distinct/hash-error", "HashIndex(%s): %v", idxString(ix), err)
					return res
				}
				if j, ok := byHash[h]; ok {
					res.Violation = pbt.V("C14", "distinct/hash-collision", "accepted spec: indexes %d (%s) and %d (%s) share hash %q, hence one task name and one status slot",
						j, idxString(indexes[j]), i, idxString(ix), h)
					return res
				}
				byHash[h] = i
				for r := 0; r < c.Retries; r++ {
					name, err := jobutil.GenerateTaskName(c.JobName, tasks.TaskIndex{Retry: int64(r), Parallel: ix})
					if err != nil {
						res.Violation = pbt.V("C14", "distinct/name-error", "GenerateTaskName: %v", err)
						return res
					}
					k := fmt.Sprintf("%s|%d", idxString(ix), r)
					if prev, ok := names[name]; ok {
						res.Violation = pbt.V("C14", "distinct/name-collision", "task name %q used by %s and %s", name, prev, k)
						return res
					}
					names[name] = k
				}
			}
			// status slots + creation requests
			job := &execution.Job{ObjectMeta: metav1.ObjectMeta{Name: c.JobName, Namespace: "ns"},
				Spec: execution.JobSpec{Template: &execution.JobTemplate{Parallelism: spec, MaxAttempts: pointer.Int64(3)}}}
			reqs, err := parallel.ComputeMissingIndexesForCreation(job, indexes)
			if err != nil || len(reqs) != len(indexes) {
				res.Violation = pbt.V("C14", "distinct/missing-initial", "fresh job: %d creation requests for %d indexes (err=%v)", len(reqs), len(indexes), err)
				return res
			}
			// give every second index one active task
			var refs []execution.TaskRef
			for i, ix := range indexes {
				if i%2 == 0 {
					ixc := ix
					name, _ := jobutil.GenerateTaskName(c.JobName, tasks.TaskIndex{Parallel: ix})
					refs = append(refs, execution.TaskRef{Name: name, ParallelIndex: &ixc})
				}
			}
			job.Status.Tasks = refs
			reqs, err = parallel.ComputeMissingIndexesForCreation(job, indexes)
			if err != nil {
				res.Violation = pbt.V("C14", "distinct/missing-error", "%v", err)
				return res
			}
			want := len(indexes) / 2
			if len(reqs) != want {
				res.Violation = pbt.V("C14", "distinct/missing-count", "with every even index active, %d creation requests, want %d", len(reqs), want)
				return res
			}
			for _, rq := range reqs {
				found := -1
				for i, ix := range indexes {
					if equalIndex(ix, rq.ParallelIndex) {
						found = i
					}
				}
				if found < 0 || found%2 == 0 {
					res.Violation = pbt.V("C14", "distinct/missing-wrong", "creation requested for %s which already has a live task", idxString(rq.ParallelIndex))
					return res
				}
			}
			ps, err := parallel.GetParallelStatus(job, refs)
			if err != nil || len(ps.Indexes) != len(indexes) {
				res.Violation = pbt.V("C14", "distinct/slots", "%d status slots for %d indexes (err=%v)", len(ps.Indexes), len(indexes), err)
				return res
			}
			for i, st := range ps.Indexes {
				wantTasks := int64(0)
				if i%2 == 0 {
					wantTasks = 1
				}
				if !equalIndex(st.Index, indexes[i]) || st.CreatedTasks != wantTasks {
					res.Violation = pbt.V("C14", "distinct/slot-content", "slot %d: index %s createdTasks %d, want index %s createdTasks %d",
						i, idxString(st.Index), st.CreatedTasks, idxString(indexes[i]), wantTasks)
					return res
				}
			}
			return res
		})
}

// TestC14_variables: the Pod created for index i carries i's values.
func TestC14_variables(t *testing.T) {
	pbt.Check(t, pbt.Opts{ID: "C14", Name: "variables", Checks: 1600, ThoroughMul: 10,
		Rule: "random parallelism spec, NewPod for every index and retry; non-trivial = at least 2 indexes; distinct = distinct spec"},
		genParCase(60), func(c ParCase) pbt.Result {
			spec := c.spec(0)
			indexes := c.refIndexes()
			res := pbt.Result{Labels: c14Labels(c, len(indexes)), NonTrivial: len(indexes) >= 2}
			job := &execution.Job{ObjectMeta: metav1.ObjectMeta{Name: c.JobName, Namespace: "ns", UID: "job-uid"},
				Spec: execution.JobSpec{Template: &execution.JobTemplate{Parallelism: spec}}}
			var env []corev1.EnvVar
			env = append(env, corev1.EnvVar{Name: "NUM", Value: "<${task.index_num}>"}, corev1.EnvVar{Name: "KEY", Value: "<${task.index_key}>"},
				corev1.EnvVar{Name: "RETRY", Value: "<${task.retry_index}>"}, corev1.EnvVar{Name: "NAME", Value: "<${task.name}>"})
			for _, d := range c.Matrix {
				env = append(env, corev1.EnvVar{Name: "M_" + d.Key, Value: "<${task.index_matrix." + d.Key + "}>"})
			}
			tmpl := &corev1.PodTemplateSpec{Spec: corev1.PodSpec{Containers: []corev1.Container{{Name: "c", Image: "img", Env: env,
				Args: []string{"${task.index_num}|${task.index_key}"}}}}}
			seenNames := map[string]bool{}
			for _, ix := range indexes {
				for r := 0; r < c.Retries; r++ {
					pod, err := podtaskexecutor.NewPod(job, tmpl, tasks.TaskIndex{Retry: int64(r), Parallel: ix})
					if err != nil {
						res.Violation = pbt.V("C14", "variables/newpod-error", "NewPod(%s,%d): %v", idxString(ix), r, err)
						return res
					}
					got := map[string]string{}
					for _, e := range pod.Spec.Containers[0].Env {
						got[e.Name] = e.Value
					}
					wantNum, wantKey := "", ""
					if ix.IndexNumber != nil {
						wantNum = strconv.FormatInt(*ix.IndexNumber, 10)
					}
					wantKey = ix.IndexKey
					chk := func(name, want string) bool {
						if got[name] != "<"+want+">" {
							res.Violation = pbt.V("C14", "variables/"+strings.ToLower(strings.SplitN(name, "_", 2)[0]), "pod %s for index %s retry %d: env %s=%q, want %q",
								pod.Name, idxString(ix), r, name, got[name], "<"+want+">")
							return false
						}
						return true
					}
					// Values containing variable syntax are out of scope here (C18); the generator draws none.
					if !chk("NUM", wantNum) || !chk("KEY", wantKey) || !chk("RETRY", strconv.Itoa(r)) || !chk("NAME", pod.Name) {
						return res
					}
					for _, d := range c.Matrix {
						if !chk("M_"+d.Key, ix.MatrixValues[d.Key]) {
							return res
						}
					}
					if a := pod.Spec.Containers[0].Args[0]; a != wantNum+"|"+wantKey {
						res.Violation = pbt.V("C14", "variables/args", "args %q want %q", a, wantNum+"|"+wantKey)
						return res
					}
					_ = seenNames
				}
			}
			return res
		})
}
