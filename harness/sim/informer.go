//go:build verif

// Package sim is a deterministic, single-threaded re-implementation of the
// environment furiko's controllers run in: API server, watch streams, informer
// caches, work queues, clock, kubelet and admission webhooks. The real
// controllers, stores, webhooks and libraries run inside it unmodified.
package sim

import (
	"hash/fnv"
	"reflect"
	"sort"
	"time"

	metav1 "k8s.io/apimachinery/pkg/apis/meta/v1"
	"k8s.io/apimachinery/pkg/runtime"
	"k8s.io/apimachinery/pkg/runtime/schema"
	kubeinformers "k8s.io/client-go/informers"
	kubecore "k8s.io/client-go/informers/core"
	kubeinternal "k8s.io/client-go/informers/internalinterfaces"
	"k8s.io/client-go/kubernetes"
	"k8s.io/client-go/tools/cache"

	furikoclient "github.com/furiko-io/furiko/pkg/generated/clientset/versioned"
	furikoinformers "github.com/furiko-io/furiko/pkg/generated/informers/externalversions"
	furikoexec "github.com/furiko-io/furiko/pkg/generated/informers/externalversions/execution"
	furikointernal "github.com/furiko-io/furiko/pkg/generated/informers/externalversions/internalinterfaces"
)

// DetInformer is a synchronous, harness-driven SharedIndexInformer: a real
// cache.Indexer, no goroutines. Deliver applies one watch event and calls the
// registered handlers in registration order.
type DetInformer struct {
	indexer  cache.Indexer
	handlers []cache.ResourceEventHandler
}

func NewDetInformer() *DetInformer {
	return &DetInformer{indexer: &sortedIndexer{Indexer: cache.NewIndexer(cache.DeletionHandlingMetaNamespaceKeyFunc,
		cache.Indexers{cache.NamespaceIndex: cache.MetaNamespaceIndexFunc})}}
}

// sortedIndexer returns lists in key order so that runs are reproducible.
type sortedIndexer struct{ cache.Indexer }

// ListSalt permutes the order in which the caches return lists: 0 = key order,
// otherwise the order of fnv(key, salt). The real indexer returns map order, so
// every order is legitimate; a run fixes one so that it stays reproducible.
// Package-level like the clocks: one simulation per process at a time.
var ListSalt uint64

func saltedKey(k string) uint64 {
	h := fnv.New64a()
	var b [8]byte
	for i := 0; i < 8; i++ {
		b[i] = byte(ListSalt >> (8 * i))
	}
	h.Write(b[:])
	h.Write([]byte(k))
	return h.Sum64()
}

func sortObjs(objs []interface{}) {
	sort.Slice(objs, func(i, j int) bool {
		ki, _ := cache.MetaNamespaceKeyFunc(objs[i])
		kj, _ := cache.MetaNamespaceKeyFunc(objs[j])
		if ListSalt != 0 {
			if hi, hj := saltedKey(ki), saltedKey(kj); hi != hj {
				return hi < hj
			}
		}
		return ki < kj
	})
}
func (s *sortedIndexer) List() []interface{} { l := s.Indexer.List(); sortObjs(l); return l }
func (s *sortedIndexer) ByIndex(n, v string) ([]interface{}, error) {
	l, err := s.Indexer.ByIndex(n, v)
	sortObjs(l)
	return l, err
}
func (s *sortedIndexer) Index(n string, o interface{}) ([]interface{}, error) {
	l, err := s.Indexer.Index(n, o)
	sortObjs(l)
	return l, err
}

func (d *DetInformer) AddEventHandler(h cache.ResourceEventHandler) {
	d.handlers = append(d.handlers, h)
}
func (d *DetInformer) AddEventHandlerWithResyncPeriod(h cache.ResourceEventHandler, _ time.Duration) {
	d.AddEventHandler(h)
}
func (d *DetInformer) GetStore() cache.Store                                { return d.indexer }
func (d *DetInformer) GetController() cache.Controller                      { return nil }
func (d *DetInformer) Run(stopCh <-chan struct{})                           {}
func (d *DetInformer) HasSynced() bool                                      { return true }
func (d *DetInformer) LastSyncResourceVersion() string                      { return "" }
func (d *DetInformer) SetWatchErrorHandler(h cache.WatchErrorHandler) error { return nil }
func (d *DetInformer) AddIndexers(ix cache.Indexers) error                  { return d.indexer.AddIndexers(ix) }
func (d *DetInformer) GetIndexer() cache.Indexer                            { return d.indexer }

// DebugDeliver, when set, is told of every delivered event (debug output only).
var DebugDeliver func(typ, key string, old interface{}, obj runtime.Object)

// Deliver applies one watch event to the cache and notifies handlers.
func (d *DetInformer) Deliver(typ string, obj runtime.Object) {
	key, _ := cache.MetaNamespaceKeyFunc(obj)
	old, exists, _ := d.indexer.GetByKey(key)
	if DebugDeliver != nil {
		DebugDeliver(typ, key, old, obj)
	}
	switch typ {
	case "ADDED", "MODIFIED":
		if exists {
			_ = d.indexer.Update(obj)
			for _, h := range d.handlers {
				h.OnUpdate(old, obj)
			}
		} else {
			_ = d.indexer.Add(obj)
			for _, h := range d.handlers {
				h.OnAdd(obj)
			}
		}
	case "DELETED":
		if exists {
			_ = d.indexer.Delete(obj)
			for _, h := range d.handlers {
				h.OnDelete(obj)
			}
		}
	}
}

// Resync notifies every handler of every cached object with old == new, as
// client-go's periodic resync does.
func (d *DetInformer) Resync() {
	for _, o := range d.indexer.List() {
		for _, h := range d.handlers {
			h.OnUpdate(o, o)
		}
	}
}

// Cached returns the cached object for a key, or nil.
func (d *DetInformer) Cached(key string) runtime.Object {
	o, ok, _ := d.indexer.GetByKey(key)
	if !ok {
		return nil
	}
	return o.(runtime.Object)
}

type factoryCore struct{ informers map[reflect.Type]*DetInformer }

func (f *factoryCore) get(obj runtime.Object) *DetInformer {
	t := reflect.TypeOf(obj)
	if inf, ok := f.informers[t]; ok {
		return inf
	}
	inf := NewDetInformer()
	f.informers[t] = inf
	return inf
}

// FurikoFactory implements the generated furiko SharedInformerFactory.
type FurikoFactory struct{ *factoryCore }

var _ furikoinformers.SharedInformerFactory = (*FurikoFactory)(nil)

func (f *FurikoFactory) Start(stopCh <-chan struct{}) {}
func (f *FurikoFactory) InformerFor(obj runtime.Object, _ furikointernal.NewInformerFunc) cache.SharedIndexInformer {
	return f.get(obj)
}
func (f *FurikoFactory) ForResource(schema.GroupVersionResource) (furikoinformers.GenericInformer, error) {
	panic("unsupported")
}
func (f *FurikoFactory) WaitForCacheSync(<-chan struct{}) map[reflect.Type]bool { return nil }
func (f *FurikoFactory) Execution() furikoexec.Interface {
	return furikoexec.New(f, metav1.NamespaceAll, nil)
}

// KubeFactory embeds a real (never started) factory and overrides Core().
type KubeFactory struct {
	kubeinformers.SharedInformerFactory
	*factoryCore
}

func (f *KubeFactory) Start(stopCh <-chan struct{}) {}
func (f *KubeFactory) InformerFor(obj runtime.Object, _ kubeinternal.NewInformerFunc) cache.SharedIndexInformer {
	return f.get(obj)
}
func (f *KubeFactory) Core() kubecore.Interface { return kubecore.New(f, metav1.NamespaceAll, nil) }

func NewFactories(kc kubernetes.Interface, fc furikoclient.Interface) (*KubeFactory, *FurikoFactory) {
	_ = fc
	return &KubeFactory{SharedInformerFactory: kubeinformers.NewSharedInformerFactory(kc, 0), factoryCore: &factoryCore{informers: map[reflect.Type]*DetInformer{}}},
		&FurikoFactory{factoryCore: &factoryCore{informers: map[reflect.Type]*DetInformer{}}}
}
